#!/usr/bin/env python3
"""Driver of the runtime-monitoring checks for ondra-novak/cocls.

  run.py --prop C07 --tier quick|thorough [--seed N]      run a registered check
  run.py --replay replays/C07-1-0.json                     re-run the job that produced a witness
  run.py --build-all [--tier quick]                        warm the build cache (setup)

Exit codes: 0 held on everything explored (KNOWN-FINDING lines possible), 1 violation(s) not listed in
known_findings.json (one "VIOLATION property=<id> replay=<path>" line each), 2 harness failure / inconclusive.
"""
import argparse, threading, concurrent.futures as cf, glob, hashlib, json, os, re, shutil, subprocess, sys, time

VERIF = os.path.dirname(os.path.dirname(os.path.abspath(__file__)))
REPO = os.environ.get('VERIF_REPO', '/repo')
BUILD = os.environ.get('VERIF_BUILD', os.path.join(VERIF, 'build'))
REPLAYS = os.environ.get('VERIF_REPLAYS', os.path.join(VERIF, 'replays'))
sys.path.insert(0, os.path.join(VERIF, 'vf'))
from props import PROPS, VARIANTS  # noqa: E402


def sh(cmd, **kw):
    return subprocess.run(cmd, shell=isinstance(cmd, str), stdout=subprocess.PIPE, stderr=subprocess.PIPE, text=True, **kw)


_src_hash = None


def source_hash():
    """hash of everything a harness binary is built from, except its own main file and flags"""
    global _src_hash
    if _src_hash is None:
        h = hashlib.sha1()
        files = sorted(glob.glob(os.path.join(REPO, 'src/cocls/*.h')))
        files += sorted(glob.glob(os.path.join(VERIF, 'vf/include/vf/*.h')))
        files += sorted(glob.glob(os.path.join(VERIF, 'vf/scn/*.h')))
        for f in files:
            h.update(f.encode())
            with open(f, 'rb') as fh:
                h.update(fh.read())
        _src_hash = h.hexdigest()
    return _src_hash


def compiler_cmd(variant):
    v = VARIANTS[variant]
    return [v['cxx'], '-std=c++20', '-DCOCLS_VERIF', '-I' + os.path.join(REPO, 'src'), '-I' + os.path.join(VERIF, 'vf/include'),
            '-I' + os.path.join(VERIF, 'vf'), '-pthread'] + v['flags']


def build(source, variant, extra_flags=()):
    """returns (binary path, None) or (None, error text)"""
    src = os.path.join(VERIF, 'vf/checks', source)
    cmd = compiler_cmd(variant) + list(extra_flags)
    h = hashlib.sha1()
    h.update(source_hash().encode())
    h.update(' '.join(cmd).encode())
    with open(src, 'rb') as fh:
        h.update(fh.read())
    key = h.hexdigest()[:16]
    os.makedirs(os.path.join(BUILD, 'bin'), exist_ok=True)
    out = os.path.join(BUILD, 'bin', '%s.%s.%s' % (os.path.splitext(source)[0], variant, key))
    if os.path.exists(out):
        return out, None
    tmp = out + '.tmp%d_%d' % (os.getpid(), threading.get_ident())
    r = sh(cmd + [src, '-o', tmp] + VARIANTS[variant].get('libs', []))
    if r.returncode != 0:
        return None, 'build failed: %s\n%s' % (' '.join(cmd + [src]), r.stderr[-6000:])
    os.replace(tmp, out)
    # drop stale binaries of the same job
    for old in glob.glob(os.path.join(BUILD, 'bin', '%s.%s.*' % (os.path.splitext(source)[0], variant))):
        if old != out and '.tmp' not in old:
            try:
                os.remove(old)
            except OSError:
                pass
    return out, None


# ------------------------------------------------------------------------------------------------
def cocls_frame(stack_lines):
    """outermost-relevant frame: first frame inside src/cocls, else first harness frame; line numbers stripped"""
    best = None
    for ln in stack_lines:
        m = re.search(r'#\d+ (?:0x[0-9a-f]+ in )?(.+?) (\S+?):(\d+)', ln)
        if not m:
            continue
        fn, path = m.group(1), m.group(2)
        fn = re.sub(r'\(.*', '', fn)
        fn = re.sub(r'<.*', '', fn)
        if '/src/cocls/' in path:
            return os.path.basename(path) + ':' + fn.strip()
        if best is None and '/vf/' in path:
            best = os.path.basename(path) + ':' + fn.strip()
    return best or '?'


def parse_tsan(text):
    """-> list of (key, block)"""
    out = []
    blocks = re.split(r'(?m)^={18}\n', text)
    for b in blocks:
        m = re.search(r'WARNING: ThreadSanitizer: ([^\n(]+)', b)
        if not m:
            continue
        kind = m.group(1).strip().replace(' ', '_')
        # split into stacks: sections start with lines not beginning with '    #'
        stacks, cur = [], None
        for ln in b.split('\n'):
            if re.match(r'\s+#\d+ ', ln):
                if cur is not None:
                    cur.append(ln)
            elif ln.strip().endswith(':') or re.match(r'\s*(Write|Read|Previous|Atomic|Location|Mutex|Thread)', ln.strip()):
                cur = []
                stacks.append((ln.strip(), cur))
        acc = [cocls_frame(s) for (hd, s) in stacks if re.match(r'(Write|Read|Previous|Atomic)', hd)]
        acc = sorted(set(acc[:2])) if acc else ['?']
        out.append(('tsan:%s:%s' % (kind, '~'.join(acc)), b.strip()[:6000]))
    return out


def classify_crash(stderr, rc):
    """-> (kind, site) or None"""
    m = re.search(r'ERROR: AddressSanitizer: ([\w-]+)', stderr)
    if m:
        lines = stderr[m.end():].split('\n')[:40]
        return 'asan:' + m.group(1), cocls_frame(lines)
    if 'ERROR: LeakSanitizer' in stderr:
        m = re.search(r'(?s)Direct leak.*?\n((?:\s+#\d+.*\n)+)', stderr)
        return 'leak', cocls_frame(m.group(1).split('\n')) if m else '?'
    m = re.search(r'([\w./+-]+):(\d+):(\d+): runtime error: ([^\n]+)', stderr)
    if m:
        msg = re.sub(r'0x[0-9a-f]+', 'ADDR', m.group(4))
        msg = re.sub(r'\d+', 'N', msg)[:80]
        return 'ubsan:' + msg, os.path.basename(m.group(1))
    m = re.search(r"Assertion [`'](.+?)' failed", stderr)
    if m:
        fm = re.search(r'(\S+?):(\d+): (.+?): Assertion', stderr)
        site = os.path.basename(fm.group(1)) if fm else '?'
        return 'abort:assert(' + m.group(1)[:100] + ')', site
    m = re.search(r'terminate called[^\n]*\n?([^\n]*)', stderr)
    if m:
        return 'abort:terminate', re.sub(r'\s+', ' ', m.group(1))[:80]
    if 'ThreadSanitizer: DEADLYSIGNAL' in stderr or 'ThreadSanitizer: SEGV' in stderr:
        return 'crash:tsan-segv', '?'
    if rc is not None and rc != 0:
        if rc < 0:
            return 'crash:signal%d' % (-rc), '?'
        return 'crash:exit%d' % rc, '?'
    return None


class JobResult:
    def __init__(self):
        self.reports = []       # parsed VF-REPORT objects
        self.sig_hashes = set()  # (scenario, hash)
        self.violations = []    # dict(key, what, witness)
        self.timeout = False
        self.wall = 0.0
        self.rc = None
        self.stderr_tail = ''
        self.error = None
        self.tsan_reports = 0


def run_job(prop, job, tier, seed, cpudir, logdir):
    res = JobResult()
    exe, err = build(job['source'], job['variant'], job.get('cxxflags', ()))
    if err:
        res.error = err
        return res
    cases = job['cases'][0 if tier == 'quick' else 1]
    mult = float(os.environ.get('VERIF_CASES_MULT', '1'))
    cases = max(1, int(cases * mult))
    name = job['name']
    out = os.path.join(logdir, name + '.out')
    for f in glob.glob(os.path.join(logdir, name + '.*')):
        os.remove(f)
    cmd = [exe, '--seed', str(seed), '--cases', str(cases), '--out', out, '--cpudir', cpudir, '--threads', str(job.get('threads', 4))]
    if job.get('scenario'):
        cmd += ['--scenario', job['scenario']]
    cmd += [str(x) for x in job.get('args', [])]
    env = dict(os.environ)
    leaks = job.get('detect_leaks', 1)
    env['ASAN_OPTIONS'] = 'abort_on_error=1:detect_stack_use_after_return=1:detect_leaks=%d:allocator_may_return_null=1:handle_abort=0' % leaks
    env['LSAN_OPTIONS'] = 'exitcode=23'
    env['UBSAN_OPTIONS'] = 'print_stacktrace=1:halt_on_error=1'
    tsan_log = os.path.join(logdir, name + '.tsan')
    env['TSAN_OPTIONS'] = 'halt_on_error=0:log_path=%s:report_signal_unsafe=0:exitcode=0:history_size=5:second_deadlock_stack=1' % tsan_log
    limit = job.get('timeout', [900, 5400])[0 if tier == 'quick' else 1]
    t0 = time.time()
    try:
        p = subprocess.run(cmd, stdout=subprocess.PIPE, stderr=subprocess.PIPE, env=env, timeout=limit, cwd=VERIF)
        res.rc = p.returncode
        stderr = p.stderr.decode('utf-8', 'replace')
    except subprocess.TimeoutExpired as e:
        res.timeout = True
        stderr = (e.stderr or b'').decode('utf-8', 'replace')
    res.wall = time.time() - t0
    res.stderr_tail = stderr[-8000:]
    with open(os.path.join(logdir, name + '.stderr'), 'w') as f:
        f.write(stderr)
    text = ''
    if os.path.exists(out):
        with open(out) as f:
            text = f.read()
    for ln in text.split('\n'):
        if ln.startswith('VF-REPORT '):
            try:
                rep = json.loads(ln[10:])
            except Exception as ex:
                res.error = 'bad report json: %s' % ex
                continue
            rep['_job'] = name
            res.reports.append(rep)
            for v in rep.get('violations', []):
                w = v.get('witness')
                if ('|hang|' in v['key'] or '|livelock|' in v['key']) and 'VF-STACK' in stderr and isinstance(w, dict):
                    w['thread_stacks'] = stderr[stderr.index('VF-STACK'):][:12000]  # best-effort stack dump made by the watchdog
                res.violations.append({'key': v['key'], 'what': v['what'], 'witness': w, 'job': name})
        elif ln.startswith('VF-SIGS '):
            parts = ln.split()
            for hx in parts[2:]:
                res.sig_hashes.add((parts[1], hx))
    # crash / sanitizer classification
    ctx = {}
    m = re.search(r'VF-CRASH sig=\d+ (\{.*\})', stderr)
    if m:
        try:
            ctx = json.loads(m.group(1))
        except Exception:
            ctx = {}
    hung_reported = any('|hang|' in v['key'] or '|livelock|' in v['key'] for v in res.violations)
    crash = None if res.timeout else classify_crash(stderr, res.rc)
    if crash and not (res.rc == 0 and crash[0].startswith('crash')):
        if not (hung_reported and crash[0].startswith('crash')):
            scen = ctx.get('scenario') or (res.reports[-1]['scenario'] if res.reports else job.get('scenario', '?'))
            res.violations.append({'key': '%s|%s|%s' % (scen, crash[0], crash[1]), 'what': 'process aborted: ' + crash[0],
                                   'witness': {'ctx': ctx, 'stderr_tail': stderr[-5000:]}, 'job': name})
    # tsan logs
    if job['variant'].startswith('tsan') or job['variant'].startswith('ctsan'):
        seen = {}
        for f in glob.glob(tsan_log + '.*'):
            with open(f, errors='replace') as fh:
                for key, block in parse_tsan(fh.read()):
                    res.tsan_reports += 1
                    if key not in seen:
                        seen[key] = block
        scen = job.get('scenario', 'all')
        for key, block in seen.items():
            res.violations.append({'key': '%s|%s' % (name, key), 'what': 'ThreadSanitizer report', 'witness': {'report': block}, 'job': name})
    return res


def load_known():
    p = os.path.join(VERIF, 'known_findings.json')
    if not os.path.exists(p):
        return []
    with open(p) as f:
        return json.load(f).get('findings', [])


def main():
    ap = argparse.ArgumentParser()
    ap.add_argument('--prop')
    ap.add_argument('--tier', default=None)
    ap.add_argument('--seed', type=int, default=None)
    ap.add_argument('--replay')
    ap.add_argument('--only-job')
    ap.add_argument('--build-all', action='store_true')
    ap.add_argument('--jobs', type=int, default=int(os.environ.get('VERIF_JOBS', '4')))
    ap.add_argument('--no-evidence', action='store_true')
    a = ap.parse_args()
    if os.environ.get('VERIF_NO_EVIDENCE'):
        a.no_evidence = True

    if a.replay:
        with open(a.replay) as f:
            rp = json.load(f)
        a.prop, a.tier, a.seed, a.only_job = rp['property'], rp['tier'], rp['seed'], rp.get('job')
        a.no_evidence = True
        print('replaying %s: property=%s tier=%s seed=%s job=%s (multi-threaded jobs replay seed and stall plan; the OS schedule may differ)'
              % (a.replay, a.prop, a.tier, a.seed, a.only_job))
    tier = a.tier or os.environ.get('VERIF_TIER') or 'quick'
    if tier not in ('quick', 'thorough'):
        tier = 'quick'
    seed = a.seed if a.seed is not None else int(os.environ.get('VERIF_SEED', '1') or 1)

    if a.build_all:
        todo = []
        for pid, cfg in PROPS.items():
            for job in cfg['jobs']:
                if tier in job.get('tiers', ('quick', 'thorough')):
                    todo.append((job['source'], job['variant'], tuple(job.get('cxxflags', ()))))
        todo = sorted(set(todo))
        bad = 0
        with cf.ThreadPoolExecutor(max_workers=int(os.environ.get('VERIF_BUILD_JOBS', '12'))) as ex:
            for (exe, err), t in zip(ex.map(lambda t: build(*t), todo), todo):
                if err:
                    bad += 1
                    print('BUILD FAILED', t, '\n', err)
        print('built %d binaries, %d failed' % (len(todo), bad))
        sys.exit(2 if bad else 0)

    if a.prop not in PROPS:
        print('unknown property', a.prop)
        sys.exit(2)
    cfg = PROPS[a.prop]
    t_start = time.time()
    logdir = os.path.join(BUILD, 'logs', '%s-%s-%d' % (a.prop, tier, os.getpid()))
    os.makedirs(logdir, exist_ok=True)
    cpudir = os.path.join(BUILD, 'cpus')
    os.makedirs(cpudir, exist_ok=True)
    jobs = [j for j in cfg['jobs'] if tier in j.get('tiers', ('quick', 'thorough'))]
    if a.only_job:
        jobs = [j for j in jobs if j['name'] == a.only_job]
    # build first (parallel), then run
    uniq = sorted(set((j['source'], j['variant'], tuple(j.get('cxxflags', ()))) for j in jobs))
    with cf.ThreadPoolExecutor(max_workers=12) as ex:
        builds = list(ex.map(lambda t: build(*t), uniq))
    for (exe, err), t in zip(builds, uniq):
        if err:
            print('HARNESS-FAILURE: build of %s (%s) failed' % (t[0], t[1]))
            print(err)
            sys.exit(2)

    def run_with_retry(job):
        r = run_job(a.prop, job, tier, seed, cpudir, logdir)
        if r.timeout and not r.violations:
            r2 = run_job(a.prop, job, tier, seed, cpudir, logdir)
            r2.retried = True
            return r2
        return r

    results = []
    with cf.ThreadPoolExecutor(max_workers=max(1, a.jobs)) as ex:
        results = list(ex.map(run_with_retry, jobs))

    # ---------------------------------------------------------------- aggregate
    known = load_known()
    harness_fail = []
    all_viol = {}
    evaluations = 0
    nontrivial_cases = 0
    sig_hashes = set()
    classes, site_hits, samples, variants, extras = {}, {}, [], [], {}
    pinned_all = True
    tsan_total = 0
    for job, r in zip(jobs, results):
        if r.error:
            harness_fail.append('%s: %s' % (job['name'], r.error))
        if r.timeout:
            harness_fail.append('%s: exceeded the wall-clock backstop twice (inconclusive)' % job['name'])
        jcases = 0
        for rep in r.reports:
            evaluations += rep['cases']
            jcases += rep['cases']
            nontrivial_cases += rep['nontrivial_cases']
            for k, v in rep.get('classes', {}).items():
                kk = rep['scenario'] + ':' + k
                classes[kk] = classes.get(kk, 0) + v
            for k, v in rep.get('site_hits', {}).items():
                site_hits[k] = site_hits.get(k, 0) + v
            for s in rep.get('samples', []):
                if len(samples) < 8 and sum(1 for x in samples if x.get('_scenario') == rep['scenario']) < 2:
                    if isinstance(s, dict):
                        s = dict(s)
                        s['_scenario'] = rep['scenario']
                        s['_job'] = job['name']
                    else:
                        s = {'_scenario': rep['scenario'], '_job': job['name'], 'case': s}
                    samples.append(s)
            if rep.get('extra'):
                extras.setdefault(job['name'] + '/' + rep['scenario'], rep['extra'])
            if not rep.get('pinned', False) and job.get('threads', 4) > 1 and rep['scenario'] not in cfg.get('single_thread_scenarios', ()):
                pinned_all = pinned_all and rep.get('pinned', False)
        sig_hashes |= r.sig_hashes
        tsan_total += r.tsan_reports
        v = VARIANTS[job['variant']]
        variants.append({'job': job['name'], 'source': job['source'], 'variant': job['variant'], 'compiler': v['cxx'], 'flags': ' '.join(v['flags']),
                         'cases': jcases, 'wall_s': round(r.wall, 2), 'exit': r.rc, 'scenarios': [rep['scenario'] for rep in r.reports]})
        if not r.reports and not r.violations and not r.error and not r.timeout:
            harness_fail.append('%s: produced no report (exit %s): %s' % (job['name'], r.rc, r.stderr_tail[-800:]))
        for v in r.violations:
            key = a.prop + '|' + v['key']
            if cfg.get('ignore_key') and re.search(cfg['ignore_key'], key):
                extras.setdefault('ignored_keys', []).append(key)
                continue
            all_viol.setdefault(key, v)

    known_seen, new_viol = [], []
    for key, v in sorted(all_viol.items()):
        hit = None
        for kf in known:
            if kf.get('status') == 'open' and kf.get('property') == a.prop and re.search(kf['key_pattern'], key):
                hit = kf
                break
        if hit:
            known_seen.append((key, hit))
        else:
            new_viol.append((key, v))
    printed = set()
    for key, kf in known_seen:
        if kf['id'] not in printed:
            printed.add(kf['id'])
            print('KNOWN-FINDING: property=%s %s [%s]' % (a.prop, kf['what'], kf['id']))
    os.makedirs(REPLAYS, exist_ok=True)
    if not a.replay:
        for old in glob.glob(os.path.join(REPLAYS, '%s-%d-*.json' % (a.prop, seed))):
            os.remove(old)
    n = 0
    for key, v in new_viol:
        path = os.path.join(REPLAYS, '%s-%d-%d.json' % (a.prop, seed, n))
        n += 1
        with open(path, 'w') as f:
            json.dump({'property': a.prop, 'tier': tier, 'seed': seed, 'job': v.get('job'), 'key': key, 'what': v['what'],
                       'witness': v.get('witness'), 'replay_cmd': 'python3 vf/run.py --replay %s' % os.path.relpath(path, VERIF)}, f, indent=1)
        print('VIOLATION property=%s replay=%s' % (a.prop, path))
        print('  key: %s\n  what: %s' % (key, v['what']))

    distinct = len(sig_hashes)
    min_nt = cfg.get('min_nontrivial', [10, 10])[0 if tier == 'quick' else 1]
    if not new_viol and not known_seen and not a.only_job and distinct < min_nt:
        harness_fail.append('inconclusive: only %d distinct non-trivial cases observed (minimum %d)' % (distinct, min_nt))
    for req in cfg.get('require_classes', []) if not (new_viol or a.only_job) else []:
        if classes.get(req, 0) == 0 and not known_seen:
            harness_fail.append('inconclusive: class %s was never observed' % req)

    wall = time.time() - t_start
    if not a.no_evidence and not a.only_job:
        ev = {
            'property_id': a.prop, 'tier': tier, 'seed': seed, 'level': 'exploration',
            'coverage': {
                'evaluations': int(evaluations), 'distinct_nontrivial': int(distinct), 'rule': cfg['rule'],
                'samples': samples if samples else [{'note': 'no sample recorded'}],
                'nontrivial_cases': int(nontrivial_cases), 'classes': classes, 'site_hits': site_hits, 'variants': variants,
                'pinned': bool(pinned_all), 'sanitizer_reports': int(tsan_total),
                'known_findings_seen': [k for k, _ in known_seen], 'violations_keys': [k for k, _ in new_viol],
                'extra': extras, 'exhaustive': False,
            },
            'assumptions': cfg.get('assumptions', []) + [
                'verdict = held on the executions listed above; interleavings not reached by the workload are not covered',
                'x86-TSO hardware: weak-memory effects are visible only through ThreadSanitizer happens-before analysis (C03)'],
            'wall_s': round(wall, 2), 'violations': len(new_viol),
        }
        if cfg.get('exhaustive_note'):
            ev['coverage']['exhaustive_subspace'] = cfg['exhaustive_note']
        os.makedirs(os.path.join(VERIF, 'evidence'), exist_ok=True)
        tmp = os.path.join(VERIF, 'evidence', a.prop + '.json.tmp')
        with open(tmp, 'w') as f:
            json.dump(ev, f, indent=1)
        os.replace(tmp, os.path.join(VERIF, 'evidence', a.prop + '.json'))
    shutil.rmtree(logdir, ignore_errors=True) if not (new_viol or harness_fail) else None
    print('%s %s seed=%d: %d cases, %d distinct non-trivial signatures, %d violation(s), %d known finding(s), %.1fs'
          % (a.prop, tier, seed, evaluations, distinct, len(new_viol), len(printed), wall))
    if new_viol:
        sys.exit(1)
    if harness_fail:
        for h in harness_fail:
            print('HARNESS-FAILURE:', h)
        sys.exit(2)
    sys.exit(0)


if __name__ == '__main__':
    main()
