"""Job table of the checks: which harness binaries, built how, with which case budgets, decide each property."""

_ASAN = ['-O1', '-g', '-fno-omit-frame-pointer', '-fsanitize=address,undefined', '-fno-sanitize-recover=all',
         '-D_GLIBCXX_ASSERTIONS']
VARIANTS = {
    # g++: what the test-suite uses
    'asan': {'cxx': 'g++', 'flags': _ASAN + ['-Wno-tsan']},
    'rel': {'cxx': 'g++', 'flags': ['-O2', '-g', '-DNDEBUG']},
    'relassert': {'cxx': 'g++', 'flags': ['-O2', '-g']},
    'tsan': {'cxx': 'g++', 'flags': ['-O1', '-g', '-fsanitize=thread', '-DNDEBUG', '-Wno-tsan']},
    'tsanassert': {'cxx': 'g++', 'flags': ['-O1', '-g', '-fsanitize=thread', '-Wno-tsan']},
    'attrib': {'cxx': 'g++', 'flags': ['-O0', '-g', '-fno-inline', '-rdynamic', '-DNDEBUG'], 'libs': ['-ldl']},
    # clang++: cross-check against compiler specific behaviour (thorough tier)
    'casan': {'cxx': 'clang++-14', 'flags': _ASAN + ['-fno-sanitize=function,object-size']},
    'crel': {'cxx': 'clang++-14', 'flags': ['-O2', '-g', '-DNDEBUG']},
    'ctsan': {'cxx': 'clang++-14', 'flags': ['-O1', '-g', '-fsanitize=thread', '-DNDEBUG']},
}

Q, T = 'quick', 'thorough'


def J(name, source, variant, cases, scenario=None, threads=4, tiers=(Q, T), **kw):
    d = {'name': name, 'source': source, 'variant': variant, 'cases': cases, 'threads': threads, 'tiers': tiers}
    if scenario:
        d['scenario'] = scenario
    d.update(kw)
    return d


PROPS = {}

PROPS['C07'] = {
    'technique': 'stress + PCT-style stall injection on a pinned thread team; overlap / exactly-once monitors; ASan, library asserts',
    'level_text': ('Held on every executed round: critical-section overlap detector, per-request once-flags, re-entrancy flags and a plain '
                   'counter protected only by the mutex, observed over >=1e5 contended rounds per quick run (1e7 thorough) with stalls injected at '
                   'the documented windows (after the request push, inside build_queue, between failed fast unlock and rebuild). Exploration, '
                   'not proof: only interleavings the team + stall plans reached.'),
    'level_note': ('Trusts: the harness monitors (relaxed atomics, no locks), the barrier as only harness-made synchronisation, TSC ordering '
                   'within 3000 cycles across cores, ASan/UBSan runtime. Hangs are decided by quiescence (/proc thread states), not by time.'),
    'rule': ('case = one team round on a fresh cocls::mutex: 2-4 pinned threads x 1-3 lock requests each, flavour drawn from '
             '{co_await lock() in a fresh coroutine, blocking lock().wait(), try_lock()} x release {release() discarded, co_await release(), '
             'ownership destructor, release on a helper thread}, random start offsets and a PCT-style stall plan over the mutex/awaiter hook '
             'sites; plus single-thread histories. Non-trivial = at least one request had to wait (hook log: ev_mx_lock_wait). '
             'Distinct = distinct (per-thread request flavour/release/lock-path sequence, number of hand-overs, rebuilt queue nodes).'),
    'min_nontrivial': [50, 500],
    'require_classes': ['mutex_mt:lock_path_waited', 'mutex_mt:lock_path_found_free_after_push', 'mutex_mt:unlock_handover'],
    'single_thread_scenarios': ('mutex_fifo_history',),
    'jobs': [
        J('mt_rel', 'c07.cpp', 'rel', [150000, 10000000], scenario='mutex_mt'),
        J('mt_asan', 'c07.cpp', 'asan', [25000, 1000000], scenario='mutex_mt'),
        J('hist_asan', 'c07.cpp', 'asan', [20000, 1000000], scenario='mutex_fifo_history', threads=1),
        J('mt_crel', 'c07.cpp', 'crel', [0, 4000000], scenario='mutex_mt', tiers=(T,)),
        J('mt_casan', 'c07.cpp', 'casan', [0, 500000], scenario='mutex_mt', tiers=(T,)),
    ],
}
PROPS['C08'] = {
    'technique': 'history recording at the API boundary checked against FIFO reference order; stress rounds with quiescence-based hang detection',
    'level_text': ('Grant order == arrival order on every generated single-thread history (exact oracle) and on every pool/thread hand-over '
                   'history; in multi-threaded rounds only pairs ordered by a boundary return->call gap constrain the order, lost requests are '
                   'detected by grant counters at the closed end of each round and by the quiescence watchdog; mutex must be lockable by '
                   'try_lock after every round. Unbounded liveness is only checked in this bounded form.'),
    'level_note': ('Trusts the harness (arrival log written by the requesting coroutine immediately before co_await lock()), TSC monotonicity '
                   'across cores within the 3000-cycle margin, /proc/self/task states for the hang verdict.'),
    'rule': ('cases = (a) deterministic single-thread histories: coroutines request the mutex in a logged arrival order (optionally behind an '
             'outer owner, spawning further requesters while holding the lock, pausing inside), releases of every style; grant order must equal '
             'arrival order exactly; (b) the C07 team rounds with the conservative real-time FIFO oracle (only pairs separated by a '
             'return->call gap of >3000 TSC cycles constrain the order), lost-request and try_lock oracles; (c) hand-over through a thread pool / '
             'parallel_resume with arrival order fixed. Non-trivial = at least two requests with one waiting. Distinct = distinct history '
             'descriptors / round signatures.'),
    'min_nontrivial': [50, 500],
    'require_classes': ['mutex_mt:lock_path_waited', 'mutex_mt:unlock_handover'],
    'single_thread_scenarios': ('mutex_fifo_history', 'mutex_pool_handoff'),
    'jobs': [
        J('hist_asan', 'c08.cpp', 'asan', [20000, 1000000], scenario='mutex_fifo_history', threads=1),
        J('mt_rel', 'c08.cpp', 'rel', [100000, 8000000], scenario='mutex_mt'),
        J('mt_asan', 'c08.cpp', 'asan', [15000, 800000], scenario='mutex_mt'),
        J('pool_asan', 'c08.cpp', 'asan', [20000, 400000], scenario='mutex_pool_handoff', threads=1),
        J('mt_crel', 'c08.cpp', 'crel', [0, 3000000], scenario='mutex_mt', tiers=(T,)),
        J('hist_casan', 'c08.cpp', 'casan', [0, 500000], scenario='mutex_fifo_history', threads=1, tiers=(T,)),
    ],
}
