"""Job table of the checks: which harness binaries, built how, with which case budgets, decide each property."""

_ASAN = ['-O1', '-g', '-fno-omit-frame-pointer', '-fsanitize=address,undefined', '-fno-sanitize-recover=all',
         '-D_GLIBCXX_ASSERTIONS']
VARIANTS = {
    # g++: what the test-suite uses
    'asan': {'cxx': 'g++', 'flags': _ASAN + ['-Wno-tsan']},
    'rel': {'cxx': 'g++', 'flags': ['-O2', '-g', '-DNDEBUG']},
    'relassert': {'cxx': 'g++', 'flags': ['-O2', '-g']},
    'tsan': {'cxx': 'g++', 'flags': ['-O1', '-g', '-fsanitize=thread', '-DNDEBUG', '-Wno-tsan']},
    'tsanassert': {'cxx': 'g++', 'flags': ['-O1', '-g', '-fsanitize=thread', '-Wno-tsan']},
    'attrib': {'cxx': 'g++', 'flags': ['-O0', '-g', '-fno-inline', '-rdynamic', '-DNDEBUG'], 'libs': ['-ldl']},
    # clang++: cross-check against compiler specific behaviour (thorough tier)
    'casan': {'cxx': 'clang++-14', 'flags': _ASAN + ['-fno-sanitize=function,object-size']},
    'crel': {'cxx': 'clang++-14', 'flags': ['-O2', '-g', '-DNDEBUG']},
    'ctsan': {'cxx': 'clang++-14', 'flags': ['-O1', '-g', '-fsanitize=thread', '-DNDEBUG']},
    'cattrib': {'cxx': 'clang++-14', 'flags': ['-O0', '-g', '-fno-inline', '-rdynamic', '-DNDEBUG'], 'libs': ['-ldl']},
}

Q, T = 'quick', 'thorough'


def J(name, source, variant, cases, scenario=None, threads=4, tiers=(Q, T), **kw):
    d = {'name': name, 'source': source, 'variant': variant, 'cases': cases, 'threads': threads, 'tiers': tiers}
    if scenario:
        d['scenario'] = scenario
    d.update(kw)
    return d


PROPS = {}

PROPS['C07'] = {
    'level_addendum': 'Additionally: state-machine parties on the callback flavour of lock requests (mutex_callback_parties), bare-coroutine releasers (bare_coroutine_programs), blocking requests through wait() and force_wait().',
    'technique': 'stress + PCT-style stall injection on a pinned thread team; overlap / exactly-once monitors; ASan, library asserts',
    'level_text': ('Held on every executed round: critical-section overlap detector, per-request once-flags, re-entrancy flags and a plain '
                   'counter protected only by the mutex, observed over >=1e5 contended rounds per quick run (1e7 thorough) with stalls injected at '
                   'the documented windows (after the request push, inside build_queue, between failed fast unlock and rebuild). Exploration, '
                   'not proof: only interleavings the team + stall plans reached.'),
    'level_note': ('Trusts: the harness monitors (relaxed atomics, no locks), the barrier as only harness-made synchronisation, TSC ordering '
                   'within 3000 cycles across cores, ASan/UBSan runtime. Hangs are decided by quiescence (/proc thread states), not by time.'),
    'rule': ('case = one team round on a fresh cocls::mutex: 2-4 pinned threads x 1-3 lock requests each, flavour drawn from '
             '{co_await lock() in a fresh coroutine, blocking lock().wait(), try_lock()} x release {release() discarded, co_await release(), '
             'ownership destructor, release on a helper thread}, random start offsets and a PCT-style stall plan over the mutex/awaiter hook '
             'sites; plus single-thread histories. Non-trivial = at least one request had to wait (hook log: ev_mx_lock_wait). '
             'Distinct = distinct (per-thread request flavour/release/lock-path sequence, number of hand-overs, rebuilt queue nodes).'),
    'min_nontrivial': [50, 500],
    'require_classes': ['mutex_mt:lock_path_waited', 'mutex_mt:lock_path_found_free_after_push', 'mutex_mt:unlock_handover'],
    'single_thread_scenarios': ('mutex_fifo_history', 'ownership_object_history', 'mutex_callback_parties', 'bare_coroutine_programs'),
    'jobs': [
        J('mt_rel', 'c07.cpp', 'rel', [150000, 10000000], scenario='mutex_mt'),
        J('mt_asan', 'c07.cpp', 'asan', [25000, 1000000], scenario='mutex_mt'),
        J('hist_asan', 'c07.cpp', 'asan', [20000, 1000000], scenario='mutex_fifo_history', threads=1),
        J('own_asan', 'c07.cpp', 'asan', [20000, 1000000], scenario='ownership_object_history', threads=1),
        J('cbp_asan', 'c07.cpp', 'asan', [30000, 1000000], scenario='mutex_callback_parties', threads=1),
        J('bare_asan', 'c07.cpp', 'asan', [30000, 1000000], scenario='bare_coroutine_programs', threads=1),
        J('own_rel', 'c07.cpp', 'rel', [40000, 2000000], scenario='ownership_object_history', threads=1),
        J('mt_crel', 'c07.cpp', 'crel', [0, 4000000], scenario='mutex_mt', tiers=(T,)),
        J('mt_casan', 'c07.cpp', 'casan', [0, 500000], scenario='mutex_mt', tiers=(T,)),
    ],
}
PROPS['C08'] = {
    'level_addendum': 'Additionally: the ownership-object histories of C07 (move construction / assignment over held ownerships, double release, self-move, two mutexes; after every step a probe try_lock must succeed exactly when the model says the mutex is free).',
    'technique': 'history recording at the API boundary checked against FIFO reference order; stress rounds with quiescence-based hang detection',
    'level_text': ('Grant order == arrival order on every generated single-thread history (exact oracle) and on every pool/thread hand-over '
                   'history; in multi-threaded rounds only pairs ordered by a boundary return->call gap constrain the order, lost requests are '
                   'detected by grant counters at the closed end of each round and by the quiescence watchdog; mutex must be lockable by '
                   'try_lock after every round. Unbounded liveness is only checked in this bounded form.'),
    'level_note': ('Trusts the harness (arrival log written by the requesting coroutine immediately before co_await lock()), TSC monotonicity '
                   'across cores within the 3000-cycle margin, /proc/self/task states for the hang verdict.'),
    'rule': ('cases = (a) deterministic single-thread histories: coroutines request the mutex in a logged arrival order (optionally behind an '
             'outer owner, spawning further requesters while holding the lock, pausing inside), releases of every style; grant order must equal '
             'arrival order exactly; (b) the C07 team rounds with the conservative real-time FIFO oracle (only pairs separated by a '
             'return->call gap of >3000 TSC cycles constrain the order), lost-request and try_lock oracles; (c) hand-over through a thread pool / '
             'parallel_resume with arrival order fixed. Non-trivial = at least two requests with one waiting. Distinct = distinct history '
             'descriptors / round signatures.'),
    'min_nontrivial': [50, 500],
    'require_classes': ['mutex_mt:lock_path_waited', 'mutex_mt:unlock_handover'],
    'single_thread_scenarios': ('mutex_fifo_history', 'mutex_pool_handoff', 'ownership_object_history', 'mutex_callback_parties'),
    'jobs': [
        J('hist_asan', 'c08.cpp', 'asan', [20000, 1000000], scenario='mutex_fifo_history', threads=1),
        J('mt_rel', 'c08.cpp', 'rel', [100000, 8000000], scenario='mutex_mt'),
        J('mt_asan', 'c08.cpp', 'asan', [15000, 800000], scenario='mutex_mt'),
        J('pool_asan', 'c08.cpp', 'asan', [20000, 400000], scenario='mutex_pool_handoff', threads=1),
        J('own_asan', 'c08.cpp', 'asan', [20000, 1000000], scenario='ownership_object_history', threads=1),
        J('cbp_asan', 'c08.cpp', 'asan', [30000, 1000000], scenario='mutex_callback_parties', threads=1),
        J('mt_crel', 'c08.cpp', 'crel', [0, 3000000], scenario='mutex_mt', tiers=(T,)),
        J('hist_casan', 'c08.cpp', 'casan', [0, 500000], scenario='mutex_fifo_history', threads=1, tiers=(T,)),
    ],
}

PROPS['C09'] = {
    'level_addendum': 'Additionally: std::string items pushed as temporaries / moved lvalues / kept lvalues, a non-coroutine consumer (call_fn_future_awaiter) that re-enters the queue from its completion, and long runs of 150-600 operations on one queue. Further: the documented single-consumer configuration (single_item_queue), in-place (count, char) pushes with a pop possibly waiting.',
    'technique': 'recorded operation histories vs executable reference queue model; unique item ids for exactly-once / order in MT stress rounds',
    'level_text': ('Single-thread histories over push/pop/unblock_pop/size/empty/destroy (raw futures and coroutine consumers, normal and coroutine '
                   'mode) are compared with a 30-line reference model after every step; multi-threaded closed rounds (1-3 producers x 1-3 consumers, '
                   'coroutine and blocking) check conservation of unique ids, per-producer order per consumer, real-time order for a single consumer, '
                   'exceptions == successful unblock_pop calls, payload checksums and instance counts; queue<void> against a counter model.'),
    'level_note': 'Trusts the reference model (vf/scn/queue.h q_model), the payload instance counters and ASan/UBSan; MT verdicts cover only reached interleavings.',
    'rule': ('case = one generated history (1-40 ops, phases biased to producer-heavy or consumer-heavy traffic) or one team round with few items per '
             'producer; non-trivial = history of >=3 ops / round with >=2 items; distinct = distinct op sequence (with modes) or distinct '
             '(role layout, waited pops, lost-subscribe-race count) of a round.'),
    'min_nontrivial': [200, 2000],
    'require_classes': ['queue_mt:pops_that_waited', 'queue_mt:exceptions_via_unblock'],
    'single_thread_scenarios': ('queue_history', 'queue_void_history', 'queue_string_values', 'queue_callback_consumer', 'queue_single_consumer'),
    'jobs': [
        J('hist_asan', 'c09.cpp', 'asan', [20000, 1000000], scenario='queue_history,queue_void_history,queue_string_values,queue_callback_consumer,queue_single_consumer', threads=1),
        J('mt_asan', 'c09.cpp', 'asan', [30000, 1500000], scenario='queue_mt,queue_unblock_contended', threads=6),
        J('mt_rel', 'c09.cpp', 'rel', [200000, 10000000], scenario='queue_mt,queue_unblock_contended', threads=6),
        J('mt_crel', 'c09.cpp', 'crel', [0, 4000000], scenario='queue_mt', threads=6, tiers=(T,)),
        J('hist_casan', 'c09.cpp', 'casan', [0, 500000], scenario='queue_history,queue_void_history', threads=1, tiers=(T,)),
    ],
}
PROPS['C10'] = {
    'level_addendum': 'Additionally: the std::string, callback-consumer and long-run (limits up to 100) variants of the C09 scenarios on the bounded queue. Further: user-supplied ring item container of capacity = limit; blocked in-place pushes.',
    'technique': 'exhaustive short histories + random histories vs executable reference model of the statement; MT conservation rounds',
    'level_text': ('The reference model encodes exactly the statement (push completes at once while fewer than limit items wait or a consumer '
                   'waits, otherwise parks with its item; each pop admits the oldest parked item; unblock_push fails the oldest parked push and '
                   'withdraws its item). All sequences over {push,pop,unblock_push} up to length 7 for limits 1-2 are enumerated completely; random '
                   'histories cover limits 1-4 with coroutine producers/consumers; MT closed rounds check conservation and per-producer order.'),
    'level_note': 'Trusts the reference model and the observation of future readiness via ready()/value(); limited_queue does not expose unblock_pop, so it is not driven.',
    'rule': ('case = one history (exhaustive sub-space: every op sequence of length <=7, limits 1-2; random: 1-40 ops, limits 1-4, normal/coroutine '
             'mode) or one MT round; non-trivial = >=3 ops / >=2 items; distinct = distinct (limit, op sequence with modes) or round signature.'),
    'exhaustive_note': 'all sequences over {push,pop,unblock_push} of length 1..7 for limits 1 and 2 (6558 histories) - exhaustive for that sub-space only',
    'min_nontrivial': [200, 2000],
    'require_classes': ['lqueue_mt:pops_that_waited', 'lqueue_mt:exceptions_via_unblock'],
    'single_thread_scenarios': ('lqueue_history', 'lqueue_exhaustive', 'lqueue_string_values', 'lqueue_callback_consumer', 'lqueue_ring_container'),
    'jobs': [
        J('hist_asan', 'c10.cpp', 'asan', [20000, 1000000], scenario='lqueue_exhaustive,lqueue_history,lqueue_string_values,lqueue_callback_consumer,lqueue_ring_container', threads=1),
        J('mt_asan', 'c10.cpp', 'asan', [30000, 1500000], scenario='lqueue_mt', threads=6),
        J('mt_rel', 'c10.cpp', 'rel', [200000, 10000000], scenario='lqueue_mt', threads=6),
        J('mt_crel', 'c10.cpp', 'crel', [0, 4000000], scenario='lqueue_mt', threads=6, tiers=(T,)),
        J('hist_casan', 'c10.cpp', 'casan', [0, 500000], scenario='lqueue_exhaustive,lqueue_history', threads=1, tiers=(T,), args=['--maxlen', '8']),
    ],
}

PROPS['C12'] = {
    'level_addendum': 'Additionally: long manual-mode runs (150-600 operations, a hundred and more pending sleeps on one scheduler). interval(): stop requested during a pending tick, between two ticks, and before the first tick.',
    'technique': 'history vs reference multiset (manual mode), virtual-clock trace oracle (single thread), real-clock stress with quiescence hang detection',
    'level_text': ('Three layers: (1) manual-mode histories over sleep_until/get_expired/cancel/remove/destroy with small, equal, past time points '
                   'and reused identifiers, compared with a reference multiset of pending sleeps after every step; (2) scheduler::start(awaitable) '
                   'in one thread under a virtual clock (hooks) where every sleeper must wake at exactly max(time point, call time), in time-point '
                   'order, and cancels must hit exactly one pending sleeper of the id; (3) real-clock create/start/destroy cycles in own-thread, '
                   'std::thread and thread-pool mode with sleeps pending at destruction, cancel-vs-expiry races, stop-token cancellation of '
                   'interval(), and a stall right before the worker wait; hangs decided by quiescence.'),
    'level_note': ('Trusts the reference model, the virtual clock installed through COCLS_VERIF now/wait_until handlers (bodies take zero virtual '
                   'time), sysclock for the never-early check in real-time mode; lateness is a statistic, not a verdict.'),
    'rule': ('case = one manual history (2-40 ops, 1-4 reused ids) / one virtual-time program (1-8 sleepers, 0-3 cancellers, optional late spawn) / '
             'one real-time start-destroy round; non-trivial = >=3 ops, >=2 sleepers, every real-time round; distinct = distinct op trace with results / '
             'program descriptor / (mode, pending count, race outcome).'),
    'min_nontrivial': [200, 2000],
    'single_thread_scenarios': ('scheduler_manual', 'scheduler_virtual', 'scheduler_threads', 'scheduler_stop_race', 'scheduler_interval_stop', 'scheduler_pool_rearm'),
    'jobs': [
        J('manual_asan', 'c12.cpp', 'asan', [30000, 1500000], scenario='scheduler_manual,scheduler_virtual', threads=1),
        J('threads_asan', 'c12.cpp', 'asan', [30000, 600000], scenario='scheduler_threads', threads=1),
        J('stop_asan', 'c12.cpp', 'asan', [30000, 1000000], scenario='scheduler_stop_race,scheduler_interval_stop', threads=1),
        J('stop_rel', 'c12.cpp', 'rel', [60000, 2000000], scenario='scheduler_stop_race,scheduler_threads', threads=1),
        J('rearm_rel', 'c12.cpp', 'rel', [60000, 1500000], scenario='scheduler_pool_rearm', threads=1),
        J('rearm_asan', 'c12.cpp', 'asan', [15000, 300000], scenario='scheduler_pool_rearm', threads=1),
        J('manual_casan', 'c12.cpp', 'casan', [0, 500000], scenario='scheduler_manual,scheduler_virtual', threads=1, tiers=(T,)),
    ],
}

PROPS['C17'] = {
    'level_addendum': "Additionally: shared_future<std::string> and shared_future built from an operation returning future<T&> (all copies observe the resolver's object; the shared state constructs and destroys nothing). Further: 1-13 awaiters x four resolver kinds, lvalue resolver whose copy throws.",
    'technique': 'stress rounds (resolver vs copy/await/wait/drop threads) with instance-counted payload, once-flags, ASan/LSan; ST histories',
    'level_text': ('Every observer of every copy must see exactly the resolver\'s payload, every awaiter is released exactly once (once-flags), the '
                   'instance-counted stored value is back to the baseline count after the last handle is gone and the promise is resolved (destroyed '
                   'exactly once, never leaked), and ASan watches the resolver arriving after every handle was dropped. All three construction paths '
                   '(promise functor, future-returning functor, default constructed + get_promise()) are drawn in histories and MT rounds.'),
    'level_note': 'Handles are never shared between roles (per-role copies in setup) as the API requires; trusts payload counters and ASan/LSan.',
    'rule': ('case = one single-thread history (construction path, resolve kind/time, 1-14 ops over copy/await/drop/wait/poll) or one team round '
             '(resolver + 1-3 handle-owning threads with 1-4 actions each); non-trivial = at least one observer; distinct = distinct op trace / '
             '(roles, parked awaiters, lost-race count).'),
    'min_nontrivial': [200, 2000],
    'require_classes': ['shared_future_mt:awaiters_parked_before_resolution', 'shared_future_mt:awaiters_lost_race_to_ready'],
    'single_thread_scenarios': ('shared_future_history', 'shared_future_trivial_types', 'shared_future_string_values', 'shared_future_reference_source', 'shared_future_many_awaiters', 'shared_future_throwing_copy'),
    'jobs': [
        J('hist_asan', 'c17.cpp', 'asan', [30000, 1500000], scenario='shared_future_history', threads=1),
        J('triv_asan', 'c17.cpp', 'asan', [30000, 1500000], scenario='shared_future_trivial_types', threads=1),
        J('str_asan', 'c17.cpp', 'asan', [20000, 800000], scenario='shared_future_string_values,shared_future_reference_source,shared_future_many_awaiters,shared_future_throwing_copy', threads=1),
        J('mt_asan', 'c17.cpp', 'asan', [40000, 2000000], scenario='shared_future_mt'),
        J('mt_rel', 'c17.cpp', 'rel', [200000, 8000000], scenario='shared_future_mt'),
        J('mt_crel', 'c17.cpp', 'crel', [0, 3000000], scenario='shared_future_mt', tiers=(T,)),
        J('hist_casan', 'c17.cpp', 'casan', [0, 500000], scenario='shared_future_history', threads=1, tiers=(T,)),
    ],
}

_FUT_RULE = ('case = one team round on a fresh future<T>/promise<T> (T drawn from int, void, move-only, int&, instance-counted 7-word struct): '
             '1-4 contenders invoke the SAME promise object concurrently with value / exception_ptr / drop / no call, the contender finishing '
             'last destroys the promise object inside the round (so "destruction resolves" is exercised whenever nobody won); 0-3 waiters of kinds '
             '{co_await f, co_await f.has_value(), wait(), sync()+value(), callback awaiter via co_awaiter::subscribe, poll ready()} on other threads; '
             'random start offsets and role-aware stall plans at the claim/set/resolve/chain-walk and subscribe sites. Non-trivial = >=2 competing '
             'calls or >=1 waiter. Distinct = (T, action multiset, winner action, per waiter kind x {found ready, parked, lost subscribe CAS to '
             'ready}, chain length walked by the resolver).')
PROPS['C01'] = {
    'level_addendum': "Additionally: contenders use every equivalent promise entry point (operator(), set_value, set_exception, unhandled_exception); std::string payloads through six argument forms (a losing call and an lvalue argument leave the caller's object intact, every reader sees the full text). Results are also read through the const overload of value(); a coroutine started into the contended promise (async::start(promise&)) is one of the competing resolvers.",
    'technique': 'stress + stall injection on a pinned thread team; boundary oracles on call results, future state (read twice), instance counters; ASan/UBSan',
    'level_text': ('On every executed round exactly one competing call reported success (or none when nobody called), every other call reported '
                   'failure and did not consume its move-only argument, the future holds exactly the winner\'s payload (address identity for int&), '
                   'two reads agree, payload instance counts balance, and the future is resolved (no-value) once the promise object is gone. '
                   'Exploration over >=2e5 rounds per quick run; the evidence lists how many rounds had competing resolvers, which resolver kind won '
                   'and how often the promise destructor resolved.'),
    'level_note': 'Trusts the harness monitors and the closed-round construction (done counter with acq_rel is the only harness-made synchronisation inside a round).',
    'rule': _FUT_RULE,
    'min_nontrivial': [200, 2000],
    'require_classes': ['future_mt:rounds_with_competing_resolvers', 'future_mt:winner_promise_destruction', 'future_mt:winner_drop', 'future_mt:winner_exception'],
    'single_thread_scenarios': ('promise_history', 'promise_default_history', 'future_string_values'),
    'jobs': [
        J('mt_rel', 'c01.cpp', 'rel', [400000, 20000000], scenario='future_mt', threads=6),
        J('pdef_asan', 'c01.cpp', 'asan', [60000, 2000000], scenario='promise_default_history', threads=1),
        J('mt_asan', 'c01.cpp', 'asan', [60000, 3000000], scenario='future_mt', threads=6),
        J('hist_asan', 'c01.cpp', 'asan', [80000, 4000000], scenario='promise_history', threads=1),
        J('str_asan', 'c01.cpp', 'asan', [30000, 1000000], scenario='future_string_values', threads=1),
        J('mt_crel', 'c01.cpp', 'crel', [0, 10000000], scenario='future_mt', threads=6, tiers=(T,)),
        J('mt_casan', 'c01.cpp', 'casan', [0, 1500000], scenario='future_mt', threads=6, tiers=(T,)),
    ],
}
PROPS['C02'] = {
    'level_addendum': "Additionally: bystander coroutines queued on the waiter's thread while it registers, a waiter that is a foreign (non-library) coroutine, and 1-13 coroutine waiters released by every resolver kind (future_many_waiters). Further: two resolutions gathered in one suspend point (assignment / merge), bare-coroutine waiters.",
    'technique': 'stress + stall injection; per-waiter once-flags, ready()-at-release and payload checksum oracles; quiescence watchdog for lost wake-ups; ASan',
    'level_text': ('Every waiter of every executed round was released exactly once, found ready()==true and the complete expected result when it ran, '
                   'and no blocking waiter stayed blocked at quiescence. The evidence counts waiters per interleaving class (found ready / parked before '
                   'resolution / lost the subscribe CAS to the resolver); a run in which the parked or the lost-race class is empty is inconclusive. '
                   'Second scenario: the resolver is the completion of an async<T> coroutine finished by another thread.'),
    'level_note': 'A stall right after a successful publish (aw_subchk_post) plus ASan is the detector for touching the awaiter after publishing it.',
    'rule': _FUT_RULE + ' Second scenario future_async_mt: outer future of an async<T> coroutine that is suspended on a gate future opened by thread 0. Third scenario frame_owned_parties: callback awaiter and blocked thread owned by the frame of the finishing coroutine (release must precede frame teardown).',
    'min_nontrivial': [200, 2000],
    'require_classes': ['future_mt:waiter_parked_before_resolution', 'future_mt:waiter_lost_subscribe_race_to_ready', 'future_async_mt:waiter_parked_before_resolution',
                        'future_async_mt:waiter_lost_subscribe_race_to_ready'],
    'single_thread_scenarios': ('frame_owned_parties', 'callback_awaiter_reuse', 'future_many_waiters'),
    'jobs': [
        J('mt_rel', 'c02.cpp', 'rel', [300000, 20000000], scenario='future_mt,future_async_mt', threads=6),
        J('mt_asan', 'c02.cpp', 'asan', [50000, 3000000], scenario='future_mt,future_async_mt', threads=6),
        J('mt_crel', 'c02.cpp', 'crel', [0, 10000000], scenario='future_mt,future_async_mt', threads=6, tiers=(T,)),
        J('mt_casan', 'c02.cpp', 'casan', [0, 1500000], scenario='future_mt,future_async_mt', threads=6, tiers=(T,)),
        J('owned_asan', 'c02.cpp', 'asan', [3000, 150000], scenario='frame_owned_parties', threads=1),
        J('owned_rel', 'c02.cpp', 'rel', [3000, 300000], scenario='frame_owned_parties', threads=1),
        J('reuse_asan', 'c02.cpp', 'asan', [30000, 1000000], scenario='callback_awaiter_reuse', threads=1),
        J('many_asan', 'c02.cpp', 'asan', [30000, 1000000], scenario='future_many_waiters', threads=1),
        J('reuse_rel', 'c02.cpp', 'rel', [60000, 3000000], scenario='callback_awaiter_reuse', threads=1),
    ],
}

_C03_SCEN = [  # (scenario, threads, quick cases, thorough cases)
    ('future_mt', 5, 12000, 600000), ('future_async_mt', 5, 12000, 600000), ('mutex_mt', 4, 10000, 500000), ('mutex_pool_handoff', 1, 20000, 400000),
    ('queue_mt', 5, 8000, 400000), ('lqueue_mt', 5, 8000, 400000), ('shared_future_mt', 4, 10000, 500000),
    ('scheduler_threads', 1, 6000, 200000), ('scheduler_stop_race', 1, 6000, 200000), ('pool_mt', 4, 12000, 400000), ('publisher_mt', 4, 8000, 400000), ('signal_mt', 4, 8000, 400000), ('generator_programs', 2, 6000, 300000), ('aggregator_programs', 2, 4000, 200000), ('adapter_matrix', 2, 9000, 400000), ('storage_mt', 2, 12000, 500000), ('async_start_race', 2, 10000, 400000), ('queue_unblock_contended', 4, 6000, 300000), ('publisher_two_publishers', 4, 8000, 400000), ('publisher_lag_mt', 2, 6000, 300000),
    ('pool_nested', 1, 8000, 300000), ('scheduler_pool_rearm', 1, 6000, 150000), ('pool_dependent', 1, 8000, 300000), ('frame_owned_parties', 1, 8000, 300000), ('async_programs', 1, 6000, 300000),
]
PROPS['C03'] = {
    'technique': 'ThreadSanitizer (happens-before race detection) over the shared multi-threaded scenario library; guarded fence annotation',
    'level_text': ('No ThreadSanitizer report (de-duplicated by the pair of outermost cocls frames) in any executed round of the multi-threaded scenario '
                   'library of all other properties, compiled -fsanitize=thread twice (NDEBUG, and with the library assertions enabled - assertions read shared state too: D11, D17), with the harness adding no synchronisation inside a round '
                   '(hook handler and monitors use relaxed non-RMW atomics only). TSan decides on happens-before of executed accesses, so a missing '
                   'release/acquire is reported on x86 although the hardware hides it.'),
    'level_note': ('Limits: only access pairs the workload executed; std::atomic_thread_fence is modelled through the guarded __tsan_acquire annotation '
                   'in subscribe_check_ready (verified not to hide the missing release); seq_cst->acq_rel weakenings and relaxed-atomic reasoning errors '
                   'that are not data races are invisible. Behavioural monitor violations seen in this build are ignored here (owning property reports them).'),
    'rule': ('case = one round of a multi-threaded scenario (future, async completion, mutex, pool hand-over, queue, bounded queue, shared_future, '
             'scheduler threads, ... see variants) under TSan; non-trivial and distinct as defined by the owning scenario.'),
    'ignore_key': r'^C03\|[a-z_]+\|monitor:',
    'min_nontrivial': [200, 2000],
    'jobs': [J(s, 'c03.cpp', 'tsan', [q, t], scenario=s, threads=th, detect_leaks=0) for (s, th, q, t) in _C03_SCEN]
            + [J(s + '_assert', 'c03.cpp', 'tsanassert', [max(1500, q // 3), t // 2], scenario=s, threads=th, detect_leaks=0) for (s, th, q, t) in _C03_SCEN]  # library asserts read shared state too (D11, D17)
            + [J(s + '_clang', 'c03.cpp', 'ctsan', [0, t // 2], scenario=s, threads=th, tiers=(T,)) for (s, th, q, t) in _C03_SCEN],
}

PROPS['C05'] = {
    'level_addendum': 'Additionally: bare coroutines resumed by ordinary code (no ready queue active) that wake coroutines through promises and queue pushes, discarding or awaiting the suspend points (bare_coroutine_programs). Bare coroutines also release coroutine mutexes; script step co_await [resolve + own handle].',
    'technique': 'per-thread event trace of scripted coroutines replayed against a reference simulation of the ready queue (online trace checker)',
    'level_text': ('Random programs of 1-14 scripted coroutines (spawn+detach discarded/awaited, co_await child, pause, promise resolution discarded/'
                   'awaited, future await, mutex lock/unlock discarded/awaited, queue push/pop) log BEGIN/END/FINISH of every step; the trace is '
                   'replayed against a simulation of exactly the statement: no event of another coroutine before the running one suspends or '
                   'finishes, next coroutine from the FRONT group of the ready queue, each ready coroutine resumed exactly once, pause re-queues '
                   'behind everything queued, nothing ready when ordinary code regains control, is_active() false there. Orders the statement '
                   'does not fix (awaited suspend points, completion hand-over, handles flushed by ordinary code) are accepted leniently.'),
    'level_note': ('Trusts the reference simulation (vf/scn/scheduling.h c5_model) incl. its knowledge of which coroutine each scripted operation makes '
                   'ready; transfers per activation are bounded (<=14 coroutines x <=12 steps). Single-threaded and exactly replayable.'),
    'rule': ('case = one generated program (2-6 scripts of 1-12 steps, 1-3 roots entered from ordinary code, children entered from inside coroutines, '
             'extra resolutions/pushes from ordinary code, then a stop phase); non-trivial = >=2 coroutines and >=3 context switches; distinct = '
             'distinct (scripts, sequence of context switches).'),
    'min_nontrivial': [500, 5000],
    'require_classes': ['scheduling_programs:resumed_from_ready_queue', 'scheduling_programs:direct_transfers', 'scheduling_programs:programs_with_3plus_queued'],
    'single_thread_scenarios': ('scheduling_programs', 'pool_stop_from_coroutine', 'bare_coroutine_programs'),
    'jobs': [
        J('prog_asan', 'c05.cpp', 'asan', [60000, 3000000], scenario='scheduling_programs', threads=1),
        J('prog_rel', 'c05.cpp', 'rel', [100000, 6000000], scenario='scheduling_programs', threads=1),
        J('poolstop_asan', 'c05.cpp', 'asan', [40000, 800000], scenario='pool_stop_from_coroutine', threads=1),
        J('poolstop_rel', 'c05.cpp', 'rel', [80000, 2000000], scenario='pool_stop_from_coroutine', threads=1),
        J('bare_asan', 'c05.cpp', 'asan', [30000, 600000], scenario='bare_coroutine_programs', threads=1),
        J('bare_rel', 'c05.cpp', 'rel', [60000, 1500000], scenario='bare_coroutine_programs', threads=1),
        J('prog_casan', 'c05.cpp', 'casan', [0, 1500000], scenario='scheduling_programs', threads=1, tiers=(T,)),
        J('prog_crel', 'c05.cpp', 'crel', [0, 3000000], scenario='scheduling_programs', threads=1, tiers=(T,)),
    ],
}
PROPS['C06'] = {
    'level_addendum': 'Additionally: a third driver mode (bare coroutine resumed by ordinary code) and flushes that run in destructors during exception unwinding. suspend_point<std::string> read four ways.',
    'technique': 'operation histories on suspend_point objects vs reference multiset; resumption counters in probe coroutines; exhaustive short sequences; ASan/LSan',
    'level_text': ('Every handle handed to a suspend point is a probe coroutine that counts its resumptions. After every operation (construct, << handle, '
                   '<< suspend_point, move-construct, move-assign, pop, clear, co_await, typed construct/merge, destruction) the counters and size()/'
                   'empty() must equal the reference model, in normal mode (flush runs handles at once) and in coroutine mode (nothing may run before '
                   'the driver suspends; everything queued runs on co_await/pause). Batch sizes are biased to 2..7,12,13,24,25,40 (inline->heap '
                   'transition and each doubling); all sequences of length <=4 over a 13-op alphabet on 2(+1) objects are enumerated completely. '
                   'new[]/delete[] balance and typed values are checked by ASan/LSan and the oracle.'),
    'level_note': 'Trusts the probe counters and the reference model; single-threaded, exactly replayable.',
    'rule': ('case = one operation sequence (random: 1-60 ops over 2-6 objects and up to 64 fresh handles; exhaustive sub-space: all sequences of '
             'length 1-4); non-trivial = >=3 ops (>=2 in the exhaustive set); distinct = distinct (mode, op sequence).'),
    'exhaustive_note': 'all sequences of length 1..4 over a 13-op alphabet on 2(+1) suspend points, in normal and in coroutine mode (61880 histories)',
    'min_nontrivial': [500, 5000],
    'single_thread_scenarios': ('suspend_point_history', 'suspend_point_exhaustive'),
    'jobs': [
        J('hist_asan', 'c06.cpp', 'asan', [60000, 3000000], scenario='suspend_point_exhaustive,suspend_point_history', threads=1),
        J('hist_rel', 'c06.cpp', 'rel', [60000, 3000000], scenario='suspend_point_history', threads=1),
        J('hist_casan', 'c06.cpp', 'casan', [0, 1500000], scenario='suspend_point_exhaustive,suspend_point_history', threads=1, tiers=(T,), args=['--maxlen', '5']),
    ],
}

PROPS['C04'] = {
    'level_addendum': 'Additionally: thread-pool start on an already stopped pool (never runs, broken promise, arguments destroyed once) and std::string results (co_return of locals, members, references) in four start modes. Further: start() from inside a coroutine followed by force_sync(); body outcomes of a user type derived from await_canceled_exception.',
    'technique': 'generated start-mode x completion-mode programs with body counters, instance-counted arguments/locals/results, ASan/LSan, quiescence watchdog',
    'level_text': ('Full cross product start mode {detach discarded/awaited, start(), start(promise&), start(promise&&), start(claimed promise), co_await, '
                   'join(), future<T>(async), future<T>-returning coroutine, thread_pool::run, never started} x completion {immediate value/throw, '
                   'suspended then value/throw, finished by the same or another thread} x T {void, int, move-only, counted}, then random programs with '
                   'nesting depth 1-6 of co_await chains. Oracles: body counter per level exactly 1 (0 when not started), bound party receives exactly '
                   'the produced value/exception, instance counters of arguments, frame locals and results return to the baseline (frame destroyed '
                   'exactly once), start(promise) on a claimed promise reports false and leaves the coroutine unstarted.'),
    'level_note': 'Frame destruction is observed through RAII guards living in the frame (double destruction -> liveness cookie / ASan; leak -> counters / LSan).',
    'rule': ('case = one program; every program is non-trivial (it creates at least one coroutine); distinct = distinct (T, start mode, completion, depth, '
             'throwing level, finishing thread). Third scenario frame_owned_parties: the bound future / a callback awaiter / a thread blocked on the own result is kept alive only by the coroutine frame (argument), so delivery must precede frame destruction.'),
    'min_nontrivial': [150, 1000],
    'require_classes': ['async_start_race:coroutine_won_the_promise', 'async_start_race:competing_call_won_the_promise'],
    'single_thread_scenarios': ('async_programs', 'frame_owned_parties', 'async_reference_results', 'async_string_results'),
    'jobs': [
        J('prog_asan', 'c04.cpp', 'asan', [40000, 2000000], scenario='async_programs', threads=1),
        J('prog_rel', 'c04.cpp', 'rel', [40000, 3000000], scenario='async_programs', threads=1),
        J('race_asan', 'c04.cpp', 'asan', [40000, 2000000], scenario='async_start_race', threads=2),
        J('race_rel', 'c04.cpp', 'rel', [300000, 15000000], scenario='async_start_race', threads=2),
        J('prog_casan', 'c04.cpp', 'casan', [0, 1000000], scenario='async_programs', threads=1, tiers=(T,)),
        J('prog_crel', 'c04.cpp', 'crel', [0, 2000000], scenario='async_programs', threads=1, tiers=(T,)),
        J('owned_asan', 'c04.cpp', 'asan', [3000, 150000], scenario='frame_owned_parties', threads=1),
        J('owned_rel', 'c04.cpp', 'rel', [3000, 300000], scenario='frame_owned_parties', threads=1),
        J('owned_casan', 'c04.cpp', 'casan', [0, 100000], scenario='frame_owned_parties', threads=1, tiers=(T,)),
        J('ref_asan', 'c04.cpp', 'asan', [3000, 200000], scenario='async_reference_results', threads=1),
        J('str_asan', 'c04.cpp', 'asan', [20000, 800000], scenario='async_string_results', threads=1),
        J('ref_rel', 'c04.cpp', 'rel', [6000, 400000], scenario='async_reference_results', threads=1),
    ],
}

PROPS['C20'] = {
    'level_addendum': 'Additionally: frames on stack_storage (learned size word), placement_alloc and reusable_buffer_storage must cause zero operator new after the learning call.',
    'technique': 'global operator new replacement with per-region accounting and backtrace()+dladdr attribution of every allocation',
    'level_text': ('Inside each measured region every allocation is attributed: coroutine frames created by the program (harness flag around the creating '
                   'call; required to be zero under a warm reusable_storage policy), the thread-local ready-queue std::deque (scheduler, counted '
                   'separately), the documented heap block of a suspend point that has to carry MORE than three handles (allowed only when the '
                   'program has >3 coroutine waiters), anything else => violation with the symbolised stack. Programs cover future/promise with 0-8 '
                   'coroutine waiters, 0-3 callback awaiters and a blocking thread waiter, resolved by value/drop/destruction; mutex with 2-6 '
                   'contenders incl. a blocking one and all release styles; suspend points carrying 0-3 handles through move/merge/pop/clear/'
                   'destruction; synchronous generators stepped by next()/value(), range-for, call->future and with arguments.'),
    'level_note': ('Built -O0 -fno-inline -rdynamic so that attribution sees real frames; exceptions allocate through malloc (not operator new) and are '
                   'outside the statement; the blocking waiter runs on a persistent helper thread created outside the regions.'),
    'rule': ('case = one generated program inside a measured region; non-trivial = all (each performs at least one primitive operation); distinct = '
             'distinct program descriptor (primitive, waiter counts/kinds, resolve kind, storage policy, generator style/length).'),
    'min_nontrivial': [100, 300],
    'single_thread_scenarios': ('alloc_free_programs',),
    'jobs': [
        J('attrib', 'c20.cpp', 'attrib', [30000, 2000000], scenario='alloc_free_programs', threads=1),
        J('attrib_clang', 'c20.cpp', 'cattrib', [0, 1000000], scenario='alloc_free_programs', threads=1, tiers=(T,)),
    ],
}

PROPS['C11'] = {
    'level_addendum': 'Additionally: co_await pool(awaitable) with the awaited operation already complete, completed later, or completed by a peer thread while the coroutine registers. Chains of dependent jobs are also submitted from a worker thread of the same pool.',
    'technique': 'stress rounds on a fresh pool racing submissions against stop()/destruction; per-job (ran, cancelled) counters, worker identity, quiescence watchdog',
    'level_text': ('Every round builds a fresh pool of 1-3 workers; 1-2 threads submit 1-3 jobs each of kinds {co_await pool, co_await pool(awaitable), '
                   'run(fn), run(async), run_detached, resume(suspend_point), co_await thread_pool::current()} while stop() is issued by the '
                   'coordinator, a second thread, from inside a job on a worker, or only by the destructor. At quiescence (pool destroyed) every job '
                   'must have (ran, cancelled) in {(1,0),(0,1)}, have run on a thread for which is_current(pool) holds, returned futures must be '
                   'resolved (value iff ran), job closures destroyed exactly once; stop()/destructor must return (quiescence watchdog). Two open '
                   'known findings (resume(suspend_point) and pool(awaitable) on a stopped pool) are matched by call site.'),
    'level_note': ('LeakSanitizer is off for this check because the two open findings leak coroutine frames by definition; every frame content is '
                   'accounted by instance counters instead. Destroying a pool while a worker-initiated stop() is still running is outside the '
                   'statement and is not driven (the harness waits for that stop() to return).'),
    'rule': ('case = one round (fresh pool, 1-3 workers, 1-2 submitters x 1-3 jobs, stop origin and delay drawn, stall plan over pool hook sites incl. '
             'worker threads); non-trivial = a stop() raced with the submissions (not destructor-only); distinct = distinct (workers, stop origin, job '
             'kinds, number executed, number cancelled). Second scenario pool_nested: a job on the outer pool creates, uses and stops an inner pool (stop(), destructor, stop() from the inner worker); follow-up jobs on the live outer pool must be executed on its workers.'),
    'min_nontrivial': [100, 1000],
    'require_classes': ['pool_mt:jobs_executed', 'pool_mt:jobs_cancelled', 'pool_mt:stop_origin_pool_worker', 'pool_mt:rounds_with_both_executed_and_cancelled'],
    'single_thread_scenarios': ('pool_nested', 'pool_dependent'),
    'jobs': [
        J('mt_asan', 'c11.cpp', 'asan', [12000, 600000], scenario='pool_mt', detect_leaks=0),
        J('mt_rel', 'c11.cpp', 'rel', [25000, 1500000], scenario='pool_mt'),
        J('mt_crel', 'c11.cpp', 'crel', [0, 800000], scenario='pool_mt', tiers=(T,)),
        J('nested_asan', 'c11.cpp', 'asan', [1500, 60000], scenario='pool_nested', threads=1),
        J('nested_rel', 'c11.cpp', 'rel', [2500, 150000], scenario='pool_nested', threads=1),
        J('dep_asan', 'c11.cpp', 'asan', [1500, 60000], scenario='pool_dependent', threads=1),
        J('dep_rel', 'c11.cpp', 'rel', [2500, 150000], scenario='pool_dependent', threads=1),
    ],
}

PROPS['C16'] = {
    'level_addendum': "Additionally: publisher<std::string> (single, moved, batch publishing; caller's objects intact) and long runs (150-600 operations, retention up to 80 values, up to 280 subscribers). Further: publisher_lag_mt (bounded publisher<std::string>, subscriber riding the tail edge of the retention window while another thread publishes); batches from input iterators.",
    'technique': 'operation histories vs reference stream model (single thread); MT rounds with contiguity / bounds oracles on unique ids; ASan',
    'level_text': ('Single-thread histories over publish (single, batch), subscribe (recent, at a retained position, by copy - also of a parked '
                   'subscriber), next (awaited by a coroutine, blocking, next_ready), kick (both forms), leave, close and publisher destruction, for '
                   'min/max in 1..5 and unlimited and all three modes, checked after every step against a reference stream. all_values: the value '
                   'is exactly position+1, no gap/duplicate, end-of-stream only if closed-and-drained, kicked or more than max behind. Skip modes '
                   'are judged by what the statement says and no more: position() strictly increases, values never go backwards, skip_to_recent '
                   'yields the newest value. Waiting subscribers must be woken exactly by publish/close/kick/destruction. MT rounds: a publisher '
                   'thread (batches, kick, close or destruction) against 1-3 subscriber threads (coroutine or blocking, early or subscribing '
                   'concurrently with bounded subscription point), stalls in the ready()/subscribe() gap and after the publisher unlocks.'),
    'level_note': ('Subscribing at a position only uses positions the configured minimum retention guarantees; a subscriber instance is never shared '
                   'between roles except through kick(pointer), which the API documents as safe. Trusts the reference stream model.'),
    'rule': ('case = one history (2-50 ops) or one MT round (1-6 publishes of 1-4 values, 1-3 subscribers); non-trivial = >=4 ops / every MT round; '
             'distinct = distinct op trace (with configuration and modes) / (batch layout, close style, subscriber kinds, kick target).'),
    'min_nontrivial': [300, 3000],
    'require_classes': ['publisher_history:histories_copying_a_parked_subscriber', 'publisher_mt:rounds_with_stall_fired'],
    'single_thread_scenarios': ('publisher_history', 'publisher_string_values'),
    'jobs': [
        J('hist_asan', 'c16.cpp', 'asan', [40000, 2000000], scenario='publisher_history', threads=1),
        J('str_asan', 'c16.cpp', 'asan', [20000, 800000], scenario='publisher_string_values', threads=1),
        J('lag_asan', 'c16.cpp', 'asan', [20000, 800000], scenario='publisher_lag_mt', threads=2),
        J('mt_asan', 'c16.cpp', 'asan', [40000, 2000000], scenario='publisher_mt,publisher_two_publishers'),
        J('mt_rel', 'c16.cpp', 'rel', [150000, 8000000], scenario='publisher_mt,publisher_two_publishers'),
        J('mt_crel', 'c16.cpp', 'crel', [0, 3000000], scenario='publisher_mt', tiers=(T,)),
        J('hist_casan', 'c16.cpp', 'casan', [0, 800000], scenario='publisher_history', threads=1, tiers=(T,)),
    ],
}

PROPS['C15'] = {
    'level_addendum': 'Additionally: signal<std::string> with by-value / const& / forwarding callbacks and coroutine listeners sharing one emission, and in-place emissions whose value constructor throws.',
    'technique': 'operation histories vs reference set of waiting listeners; MT rounds with contiguity and real-time inclusion oracles; closure guards, ASan/LSan',
    'level_text': ('Histories over listener arrival (coroutine listeners awaiting forever or once, connected callbacks returning false after k calls), '
                   'collector calls by value / rvalue / lvalue reference (address identity) / void, collector copies, signal-from-collector conversion '
                   'and dropping of every handle: after every step each listener must hold exactly the values emitted while it was waiting; at '
                   'disconnect every waiting coroutine listener has seen await_canceled_exception exactly once and every callback object was released '
                   'exactly once; awaiting a disconnected emitter fails immediately. MT rounds: 1-3 listener threads subscribe while one collector '
                   'thread emits 1-8 values and then drops the signal: every listener receives a contiguous run ending with the last emission, '
                   'containing every emission whose call started (TSC, 3000-cycle margin) after the listener\'s suspension returned, and is '
                   'cancelled exactly once.'),
    'level_note': 'The collector and the signal object are used by one thread only (documented single-threaded); listeners hold emitters created in setup.',
    'rule': ('case = one history (2-40 ops) or one MT round; non-trivial = >=3 ops / every MT round; distinct = distinct op trace / (listeners, emissions, '
             'gap class, values received per listener).'),
    'min_nontrivial': [300, 2000],
    'require_classes': ['signal_mt:listeners_that_joined_midway', 'signal_mt:listeners_that_saw_all'],
    'single_thread_scenarios': ('signal_history', 'signal_string_values', 'signal_throwing_values'),
    'jobs': [
        J('hist_asan', 'c15.cpp', 'asan', [40000, 2000000], scenario='signal_history', threads=1),
        J('mt_asan', 'c15.cpp', 'asan', [40000, 2000000], scenario='signal_mt'),
        J('str_asan', 'c15.cpp', 'asan', [30000, 1000000], scenario='signal_string_values,signal_throwing_values', threads=1),
        J('mt_rel', 'c15.cpp', 'rel', [150000, 8000000], scenario='signal_mt'),
        J('mt_crel', 'c15.cpp', 'crel', [0, 3000000], scenario='signal_mt', tiers=(T,)),
        J('hist_casan', 'c15.cpp', 'casan', [0, 800000], scenario='signal_history', threads=1, tiers=(T,)),
    ],
}

PROPS['C13'] = {
    'level_addendum': 'Additionally: a consumer that is one coroutine for the whole sequence, and next() result objects that are kept and asked more than once. Further: next()+value() from inside a coroutine consumer for bodies that never wait; bodies that let await_canceled_exception escape.',
    'technique': 'scripted generator bodies vs recorded consumer observations (reference sequence); instance-counted locals; two-thread completion with stalls; ASan',
    'level_text': ('Body scripts over {yield v, await a ready future, await a pending future, throw, return} for generator<int> and generator<int,int> '
                   '(argument read through co_yield nullptr and every co_yield). The consumer picks the access style independently per step from '
                   '{next()+value(), iterator, call->future->wait(), call->future->co_await, co_await next()}; pending awaits of the body are '
                   'completed by the consumer thread (awaiting styles) or by a helper team thread (blocking styles), sometimes before they are '
                   'awaited. Oracle: observed sequence (values, exception position, single end marker) == the script\'s; the body saw exactly the '
                   'arguments of the calls that resumed it, one per call; a generator dropped before its first activation never runs; the RAII '
                   'guard in the body is destroyed exactly once also when the generator is dropped parked at a yield.'),
    'level_note': 'After the first end/exception indication the harness stops calling (behaviour afterwards is not part of the statement).',
    'rule': ('case = one program (script of 0-8 ops, per-step styles, drop mode, one or two threads); non-trivial = >=2 observed items; distinct = '
             'distinct (generator kind, script, threading, drop mode, style sequence).'),
    'min_nontrivial': [300, 3000],
    'require_classes': ['generator_programs:programs_with_cross_thread_completion', 'generator_programs:programs_dropping_the_generator_early',
                        'generator_programs:style: iterator', 'generator_programs:style: call->future->wait'],
    'single_thread_scenarios': ('generator_string_values',),
    'jobs': [
        J('prog_asan', 'c13.cpp', 'asan', [30000, 1500000], scenario='generator_programs', threads=2),
        J('prog_rel', 'c13.cpp', 'rel', [60000, 4000000], scenario='generator_programs', threads=2),
        J('str_asan', 'c13.cpp', 'asan', [20000, 800000], scenario='generator_string_values', threads=1),
        J('str_rel', 'c13.cpp', 'rel', [40000, 2000000], scenario='generator_string_values', threads=1),
        J('prog_casan', 'c13.cpp', 'casan', [0, 800000], scenario='generator_programs', threads=2, tiers=(T,)),
        J('prog_crel', 'c13.cpp', 'crel', [0, 2000000], scenario='generator_programs', threads=2, tiers=(T,)),
    ],
}
PROPS['C14'] = {
    'level_addendum': 'Additionally: a consumer that is one coroutine for the whole sequence (its ready queue stays active between the calls). Sources that end with await_canceled_exception must be reported like any other exception.',
    'technique': 'scripted source generators with unique ids vs recorded aggregate output (multiset union, per-source order, end/exception, argument routing); ASan/LSan',
    'level_text': ('0-5 scripted sources (finite or 40-yield "infinite", synchronous or awaiting pending futures completed by the consumer or a helper '
                   'thread, possibly throwing), aggregated; the consumer uses every access style per step. Oracle: every consumed id belongs to a '
                   'source and is the next one of that source (per-source order, no duplicate), the aggregate ends only when every source ended and '
                   'then nothing is missing, a source exception is reported while no other value is lost, argument routing (first call -> all '
                   'sources, call n+1 -> the source whose value call n returned), destruction while parked (from ordinary code, with in-flight '
                   'asynchronous sources) returns and all source locals are destroyed exactly once.'),
    'level_note': 'Before destroying a parked aggregate the harness resolves what in-flight sources await (they could never deliver otherwise) and destroys from ordinary code, as documented.',
    'rule': ('case = one program; non-trivial = >=2 sources and >=3 observed items; distinct = distinct (sources\' scripts, threading, style sequence, '
             'observed interleaving).'),
    'min_nontrivial': [300, 3000],
    'require_classes': ['aggregator_programs:programs_with_cross_thread_completion', 'aggregator_programs:programs_destroying_the_aggregate_while_parked'],
    'jobs': [
        J('prog_asan', 'c14.cpp', 'asan', [20000, 1000000], scenario='aggregator_programs', threads=2),
        J('prog_rel', 'c14.cpp', 'rel', [40000, 3000000], scenario='aggregator_programs', threads=2),
        J('prog_casan', 'c14.cpp', 'casan', [0, 500000], scenario='aggregator_programs', threads=2, tiers=(T,)),
    ],
}

PROPS['C18'] = {
    'level_addendum': 'Additionally: a third of the int-source cells use awaited operations that return future<int&> (allowed by ReturnsFuture).',
    'technique': 'full adapter x outcome x timing matrix with once-flags, outcome comparison, monitoring storage (alloc/release pairing) and payload counters; ASan/LSan',
    'level_text': ('The matrix adapter {callback_await, callback_await_alloc, make_promise, make_promise(storage), discard, six future_conv forms plus '
                   'conv(promise)<<fn, call_fn_future_awaiter} x outcome {value, exception, dropped promise} x timing {resolved before registration, '
                   'later on the same thread, concurrently on another pinned thread with stalls in subscribe/resolve} is walked round-robin. Oracle: '
                   'completion callback ran exactly once with exactly the supplied outcome; converters deliver the converted value, the source\'s '
                   'exception / broken promise, or the converter\'s own exception to the outer future; the helper block taken from the supplied '
                   'storage is released exactly once with the same size (monitoring storage), heap helpers are covered by LSan and payload counters.'),
    'level_note': 'Trusts the monitoring storage (vf/include/vf/mstorage.h) and the outcome reader; the concurrent column only covers reached interleavings (classes in the evidence).',
    'rule': ('case = one matrix cell execution (13 adapters x 3 outcomes x 3 timings = 117 cells, each repeated with different offsets/stall plans); every '
             'case is non-trivial; distinct = distinct (cell, converter-throws flag, interleaving class of the concurrent column).'),
    'min_nontrivial': [100, 130],
    'require_classes': ['adapter_matrix:concurrent_parked_before_resolution', 'adapter_matrix:concurrent_lost_subscribe_race'],
    'jobs': [
        J('matrix_asan', 'c18.cpp', 'asan', [60000, 3000000], scenario='adapter_matrix', threads=2),
        J('matrix_rel', 'c18.cpp', 'rel', [200000, 10000000], scenario='adapter_matrix', threads=2),
        J('matrix_casan', 'c18.cpp', 'casan', [0, 1500000], scenario='adapter_matrix', threads=2, tiers=(T,)),
    ],
}

PROPS['C19'] = {
    'level_addendum': 'Additionally: 6 and 10 KB frames on stack storage and 3/16/24-byte buffer elements, each with a containment check (frame wholly inside the offered block / buffer). Further: odd-sized extra objects over the reusing policies (exposed D21), self move assignment of reusable_storage.',
    'technique': 'monitoring wrapper around every library storage policy (live-frame interval table, pairing), frame canaries, global new/delete accounting; ASan/UBSan; two-thread rounds',
    'level_text': ('monitored<S> wraps default_storage, reusable_storage, reusable_storage_mtsafe, stack_storage (alloca, heap fallback), placement_alloc, '
                   'reusable_buffer_storage and promise_extra_storage: every frame handed out is entered in a live-interval table (no two live '
                   'frames overlap, dealloc pairs with alloc with the same pointer and size), coroutine bodies of three frame sizes fill a canary '
                   'array before suspending and verify it after every resumption, global new/delete counters must balance after every sequence '
                   '(heap fallbacks released exactly once) and show zero growth for five equally sized frames after warm-up for the reusing '
                   'policies; stack_storage must fit the next frame after an equal or larger one went through the heap fallback; the attached extra '
                   'object is counted (constructed once when the coroutine object is created, usable before start, destroyed with the frame, also '
                   'for a never-started coroutine). Two pinned threads create and finish coroutines on one reusable_storage_mtsafe with stalls at '
                   'the alloc/dealloc hook sites (frame overlap, canaries, heap balance; the same scenario runs under TSan in C03).'),
    'level_note': ('The check binary replaces global operator new/delete with counting versions; balances are taken in windows where the harness itself '
                   'does not allocate (strings pre-reserved, thread-local ready queues warmed up). static_storage is not part of the statement and '
                   'does not satisfy the Storage concept (non-static dealloc), so it is not driven.'),
    'rule': ('case = one random creation/completion sequence on one policy (7 policies round-robin, 4-24 steps, up to 3 live frames where the policy '
             'allows it, 3 frame sizes) or one two-thread round; every case is non-trivial; distinct = distinct op sequence / (frames per thread, sizes, '
             'stall fired).'),
    'min_nontrivial': [300, 3000],
    'require_classes': ['storage_mt:rounds_with_stall_fired', 'storage_sequences:policy: stack_storage', 'storage_sequences:policy: promise_extra_storage'],
    'single_thread_scenarios': ('storage_sequences',),
    'jobs': [
        J('seq_asan', 'c19.cpp', 'asan', [40000, 2000000], scenario='storage_sequences', threads=1),
        J('seq_rel', 'c19.cpp', 'rel', [60000, 4000000], scenario='storage_sequences', threads=1),
        J('mt_asan', 'c19.cpp', 'asan', [60000, 3000000], scenario='storage_mt', threads=2),
        J('mt_rel', 'c19.cpp', 'rel', [300000, 15000000], scenario='storage_mt', threads=2),
        J('seq_casan', 'c19.cpp', 'casan', [0, 800000], scenario='storage_sequences', threads=1, tiers=(T,)),
    ],
}
