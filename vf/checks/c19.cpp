// C19 - coroutine storage policies give every frame exclusive, correctly freed memory
#include <scn/storage.h>
#include <new>
// global heap accounting (relaxed counters only)
void *operator new(std::size_t n) { void *p = malloc(n ? n : 1); if (!p) throw std::bad_alloc(); scn::g_heap_news.fetch_add(1, std::memory_order_relaxed); return p; }
void *operator new[](std::size_t n) { return operator new(n); }
void operator delete(void *p) noexcept { if (p) { scn::g_heap_deletes.fetch_add(1, std::memory_order_relaxed); free(p); } }
void operator delete[](void *p) noexcept { operator delete(p); }
void operator delete(void *p, std::size_t) noexcept { operator delete(p); }
void operator delete[](void *p, std::size_t) noexcept { operator delete(p); }
#define RUN(name, nthreads, wd, call) if (o.want(name)) { vf::report R("C19", name, o); vf::g_active_report = &R; vf::team T(nthreads, o, wd); call; T.export_hits(R); R.write(); vf::g_active_report = nullptr; }
int main(int argc, char **argv) {
    vf::opts o(argc, argv);
    vf::install_crash_handler();
    RUN("storage_sequences", 1, true, scn::storage_sequences(o, R, o.cases));
    RUN("storage_mt", 2, true, scn::storage_mt<true>(o, R, T, o.cases));
    return 0;
}
