// C03 - cross-thread operations are data-race free and publish results safely.
// The workload is the multi-threaded scenario library of the other properties, compiled with -fsanitize=thread.
// Only ThreadSanitizer reports, aborts and hangs count here; behavioural monitor violations belong to the owning property.
#include <scn/future.h>
#include <scn/mutex.h>
#include <scn/queue.h>
#include <scn/shared_future.h>
#include <scn/scheduler.h>
#include <scn/thread_pool.h>
#include <scn/publisher.h>
#include <scn/signal.h>
#include <scn/generator.h>
#include <scn/adapters.h>
#include <scn/storage.h>
#include <scn/async.h>
#define RUN(name, nthreads, wd, call) if (o.want(name)) { vf::report R("C03", name, o); vf::g_active_report = &R; vf::team T(nthreads, o, wd); call; T.export_hits(R); R.write(); vf::g_active_report = nullptr; }
int main(int argc, char **argv) {
    vf::opts o(argc, argv);
    vf::install_crash_handler();
    RUN("future_mt", o.threads, true, scn::future_mt(o, R, T, o.cases, scn::FUT_ALL));
    RUN("future_async_mt", o.threads, true, scn::future_async_mt(o, R, T, o.cases / 2 + 1));
    RUN("mutex_mt", o.threads, true, scn::mutex_mt(o, R, T, o.cases, scn::MX_ALL));
    RUN("mutex_pool_handoff", 1, true, scn::mutex_pool_handoff(o, R, o.cases / 10 + 1));
    RUN("queue_mt", o.threads, true, scn::queue_mt<false>(o, R, T, o.cases));
    RUN("lqueue_mt", o.threads, true, scn::queue_mt<true>(o, R, T, o.cases));
    RUN("shared_future_mt", o.threads, true, scn::shared_future_mt(o, R, T, o.cases));
    RUN("scheduler_threads", 1, true, scn::scheduler_threads(o, R, T, o.cases / 20 + 1));
    RUN("scheduler_stop_race", 1, true, scn::scheduler_stop_race(o, R, T, o.cases / 10 + 1));
    RUN("pool_mt", o.threads, true, scn::pool_mt(o, R, T, o.cases / 4 + 1));
    RUN("publisher_mt", o.threads, true, scn::publisher_mt(o, R, T, o.cases));
    RUN("signal_mt", o.threads, true, scn::signal_mt(o, R, T, o.cases));
    RUN("generator_programs", 2, true, scn::generator_programs(o, R, T, o.cases));
    RUN("aggregator_programs", 2, true, scn::aggregator_programs(o, R, T, o.cases));
    RUN("adapter_matrix", 2, true, scn::adapter_matrix(o, R, T, o.cases));
    RUN("storage_mt", 2, true, scn::storage_mt<true>(o, R, T, o.cases));
    RUN("async_start_race", 2, true, scn::async_start_race(o, R, T, o.cases));
    RUN("queue_unblock_contended", std::min(o.threads, 4), true, scn::queue_unblock_contended(o, R, T, o.cases));
    RUN("publisher_two_publishers", o.threads, true, scn::publisher_two_publishers(o, R, T, o.cases));
    RUN("publisher_lag_mt", 2, true, scn::publisher_lag_mt(o, R, T, o.cases));
    RUN("scheduler_pool_rearm", 1, true, scn::scheduler_pool_rearm(o, R, o.cases / 300 + 1));
    RUN("pool_nested", 1, true, scn::pool_nested(o, R, o.cases / 8 + 1));
    RUN("pool_dependent", 1, true, scn::pool_dependent(o, R, o.cases / 8 + 1));
    RUN("frame_owned_parties", 1, true, scn::frame_owned_parties(o, R, o.cases / 4 + 1));
    RUN("async_programs", 1, true, scn::async_programs(o, R, o.cases));
    return 0;
}
