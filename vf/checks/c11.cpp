// C11 - thread pool: every submission runs once on a worker or is cancelled once
#include <scn/thread_pool.h>
#define RUN(name, nthreads, wd, call) if (o.want(name)) { vf::report R("C11", name, o); vf::g_active_report = &R; vf::team T(nthreads, o, wd); call; T.export_hits(R); R.write(); vf::g_active_report = nullptr; }
int main(int argc, char **argv) {
    vf::opts o(argc, argv);
    vf::install_crash_handler();
    RUN("pool_mt", o.threads, true, scn::pool_mt(o, R, T, o.cases));
    RUN("pool_nested", 1, true, scn::pool_nested(o, R, o.cases));
    RUN("pool_dependent", 1, true, scn::pool_dependent(o, R, o.cases));
    return 0;
}
