// C09 - awaitable queue: each item delivered exactly once, in order
#include <scn/queue.h>
#define RUN(name, nthreads, wd, call) if (o.want(name)) { vf::report R("C09", name, o); vf::g_active_report = &R; vf::team T(nthreads, o, wd); call; T.export_hits(R); R.write(); vf::g_active_report = nullptr; }
int main(int argc, char **argv) {
    vf::opts o(argc, argv);
    vf::install_crash_handler();
    RUN("queue_history", 1, true, scn::queue_history<false>(o, R, o.cases));
    RUN("queue_void_history", 1, true, scn::queue_void_history(o, R, o.cases / 4 + 1));
    RUN("queue_string_values", 1, true, scn::queue_string_values<false>(o, R, o.cases));
    RUN("queue_callback_consumer", 1, true, scn::queue_callback_consumer<false>(o, R, o.cases));
    RUN("queue_single_consumer", 1, true, scn::queue_single_consumer(o, R, o.cases));
    RUN("queue_mt", o.threads, true, scn::queue_mt<false>(o, R, T, o.cases));
    RUN("queue_unblock_contended", std::min(o.threads, 4), true, scn::queue_unblock_contended(o, R, T, o.cases / 4 + 1));
    return 0;
}
