// C18 - callback adapters fire exactly once with the right outcome
#include <scn/adapters.h>
#define RUN(name, nthreads, wd, call) if (o.want(name)) { vf::report R("C18", name, o); vf::g_active_report = &R; vf::team T(nthreads, o, wd); call; T.export_hits(R); R.write(); vf::g_active_report = nullptr; }
int main(int argc, char **argv) {
    vf::opts o(argc, argv);
    vf::install_crash_handler();
    RUN("adapter_matrix", 2, true, scn::adapter_matrix(o, R, T, o.cases));
    return 0;
}
