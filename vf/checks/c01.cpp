// C01 - a future is resolved exactly once, by exactly one winner
#include <scn/future.h>
#include <scn/strings.h>
#define RUN(name, nthreads, wd, call) if (o.want(name)) { vf::report R("C01", name, o); vf::g_active_report = &R; vf::team T(nthreads, o, wd); call; T.export_hits(R); R.write(); vf::g_active_report = nullptr; }
int main(int argc, char **argv) {
    vf::opts o(argc, argv);
    vf::install_crash_handler();
    RUN("promise_history", 1, true, scn::promise_history(o, R, o.cases / 4 + 1));
    RUN("promise_default_history", 1, true, scn::promise_default_history(o, R, o.cases / 4 + 1));
    RUN("future_mt", o.threads, true, scn::future_mt(o, R, T, o.cases, scn::FUT_C01));
    RUN("future_string_values", 1, true, scn::future_string_values(o, R, o.cases));
    return 0;
}
