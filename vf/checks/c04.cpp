// C04 - an async coroutine runs once, delivers to its bound party, frees once
#include <scn/async.h>
#include <scn/strings.h>
#define RUN(name, nthreads, wd, call) if (o.want(name)) { vf::report R("C04", name, o); vf::g_active_report = &R; vf::team T(nthreads, o, wd); call; T.export_hits(R); R.write(); vf::g_active_report = nullptr; }
int main(int argc, char **argv) {
    vf::opts o(argc, argv);
    vf::install_crash_handler();
    RUN("async_programs", 1, true, scn::async_programs(o, R, o.cases));
    RUN("async_start_race", 2, true, scn::async_start_race(o, R, T, o.cases));
    RUN("frame_owned_parties", 1, true, scn::frame_owned_parties(o, R, o.cases));
    RUN("async_reference_results", 1, true, scn::async_reference_results(o, R, o.cases));
    RUN("async_string_results", 1, true, scn::async_string_results(o, R, o.cases));
    return 0;
}
