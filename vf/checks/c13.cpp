// C13 - generator: consumer sees exactly the yielded sequence, in every access style
#include <scn/generator.h>
#define RUN(name, nthreads, wd, call) if (o.want(name)) { vf::report R("C13", name, o); vf::g_active_report = &R; vf::team T(nthreads, o, wd); call; T.export_hits(R); R.write(); vf::g_active_report = nullptr; }
int main(int argc, char **argv) {
    vf::opts o(argc, argv);
    vf::install_crash_handler();
    RUN("generator_programs", 2, true, scn::generator_programs(o, R, T, o.cases));
    RUN("generator_string_values", 1, true, scn::generator_string_values(o, R, o.cases));
    return 0;
}
