// C16 - publisher: subscribers see a gap-free, ordered, duplicate-free stream
#include <scn/publisher.h>
#include <scn/strings.h>
#define RUN(name, nthreads, wd, call) if (o.want(name)) { vf::report R("C16", name, o); vf::g_active_report = &R; vf::team T(nthreads, o, wd); call; T.export_hits(R); R.write(); vf::g_active_report = nullptr; }
int main(int argc, char **argv) {
    vf::opts o(argc, argv);
    vf::install_crash_handler();
    RUN("publisher_history", 1, true, scn::publisher_history(o, R, o.cases));
    RUN("publisher_string_values", 1, true, scn::publisher_string_values(o, R, o.cases));
    RUN("publisher_mt", o.threads, true, scn::publisher_mt(o, R, T, o.cases));
    RUN("publisher_two_publishers", o.threads, true, scn::publisher_two_publishers(o, R, T, o.cases / 2 + 1));
    RUN("publisher_lag_mt", 2, true, scn::publisher_lag_mt(o, R, T, o.cases));
    return 0;
}
