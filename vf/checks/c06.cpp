// C06 - a suspend point never loses or duplicates a ready coroutine
#include <scn/suspend_point.h>
#define RUN(name, nthreads, wd, call) if (o.want(name)) { vf::report R("C06", name, o); vf::g_active_report = &R; vf::team T(nthreads, o, wd); call; T.export_hits(R); R.write(); vf::g_active_report = nullptr; }
int main(int argc, char **argv) {
    vf::opts o(argc, argv);
    vf::install_crash_handler();
    RUN("suspend_point_exhaustive", 1, false, scn::suspend_point_exhaustive(o, R, (int)o.get("maxlen", 4)));
    RUN("suspend_point_history", 1, false, scn::suspend_point_history(o, R, o.cases));
    return 0;
}
