// C06 - a suspend point never loses or duplicates a ready coroutine
#include <scn/suspend_point.h>
#include <new>
// array forms only: suspend_point<void> is the only user of new[]/delete[] in these programs
void *operator new[](std::size_t n) { void *p = malloc(n ? n : 1); if (!p) throw std::bad_alloc(); scn::g_arrays_live.fetch_add(1, std::memory_order_relaxed); return p; }
void operator delete[](void *p) noexcept { if (p) { scn::g_arrays_live.fetch_sub(1, std::memory_order_relaxed); free(p); } }
void operator delete[](void *p, std::size_t) noexcept { operator delete[](p); }
#define RUN(name, nthreads, wd, call) if (o.want(name)) { vf::report R("C06", name, o); vf::g_active_report = &R; vf::team T(nthreads, o, wd); call; T.export_hits(R); R.write(); vf::g_active_report = nullptr; }
int main(int argc, char **argv) {
    vf::opts o(argc, argv);
    vf::install_crash_handler();
    RUN("suspend_point_exhaustive", 1, true, scn::suspend_point_exhaustive(o, R, (int)o.get("maxlen", 4)));
    RUN("suspend_point_history", 1, true, scn::suspend_point_history(o, R, o.cases));
    return 0;
}
