// C17 - shared_future: one result for all copies; state lives exactly as long as needed
#include <scn/shared_future.h>
#include <scn/strings.h>
#define RUN(name, nthreads, wd, call) if (o.want(name)) { vf::report R("C17", name, o); vf::g_active_report = &R; vf::team T(nthreads, o, wd); call; T.export_hits(R); R.write(); vf::g_active_report = nullptr; }
int main(int argc, char **argv) {
    vf::opts o(argc, argv);
    vf::install_crash_handler();
    RUN("shared_future_history", 1, true, scn::shared_future_history(o, R, o.cases));
    RUN("shared_future_mt", o.threads, true, scn::shared_future_mt(o, R, T, o.cases));
    RUN("shared_future_trivial_types", 1, true, scn::shared_future_trivial_types(o, R, o.cases));
    RUN("shared_future_string_values", 1, true, scn::shared_future_string_values(o, R, o.cases));
    RUN("shared_future_reference_source", 1, true, scn::shared_future_reference_source(o, R, o.cases));
    RUN("shared_future_many_awaiters", 1, true, scn::shared_future_many_awaiters(o, R, o.cases));
    RUN("shared_future_throwing_copy", 1, true, scn::shared_future_throwing_copy(o, R, o.cases));
    return 0;
}
