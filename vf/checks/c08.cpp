// C08 - coroutine mutex: FIFO hand-off and no lost request
#include <scn/mutex.h>
int main(int argc, char **argv) {
    vf::opts o(argc, argv);
    vf::install_crash_handler();
    if (o.want("mutex_fifo_history")) {
        vf::report R("C08", "mutex_fifo_history", o);
        vf::g_active_report = &R;
        vf::team T(1, o, false);
        scn::mutex_fifo_history(o, R, o.cases);
        T.export_hits(R);
        R.write();
        vf::g_active_report = nullptr;
    }
    if (o.want("mutex_mt")) {
        vf::report R("C08", "mutex_mt", o);
        vf::g_active_report = &R;
        vf::team T(o.threads, o);
        scn::mutex_mt(o, R, T, o.cases, scn::MX_C08);
        T.export_hits(R);
        R.write();
        vf::g_active_report = nullptr;
    }
    if (o.want("mutex_pool_handoff")) {
        vf::report R("C08", "mutex_pool_handoff", o);
        vf::g_active_report = &R;
        vf::team T(1, o, true);
        scn::mutex_pool_handoff(o, R, o.cases / 40 + 1);
        T.export_hits(R);
        R.write();
        vf::g_active_report = nullptr;
    }
    if (o.want("ownership_object_history")) { // "a mutex whose every ownership has been released can be locked again": life-cycle of ownership objects
        vf::report R("C08", "ownership_object_history", o);
        vf::g_active_report = &R;
        vf::team T(1, o, true);
        scn::ownership_object_history(o, R, o.cases);
        T.export_hits(R);
        R.write();
        vf::g_active_report = nullptr;
    }
    if (o.want("mutex_callback_parties")) {
        vf::report R("C08", "mutex_callback_parties", o);
        vf::g_active_report = &R;
        vf::team T(1, o, true);
        scn::mutex_callback_parties(o, R, o.cases);
        T.export_hits(R);
        R.write();
        vf::g_active_report = nullptr;
    }
    return 0;
}
