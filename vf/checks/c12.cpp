// C12 - scheduler: never early, in deadline order, cancel hits exactly its target
#include <scn/scheduler.h>
#define RUN(name, nthreads, wd, call) if (o.want(name)) { vf::report R("C12", name, o); vf::g_active_report = &R; vf::team T(nthreads, o, wd); call; T.export_hits(R); R.write(); vf::g_active_report = nullptr; }
int main(int argc, char **argv) {
    vf::opts o(argc, argv);
    vf::install_crash_handler();
    RUN("scheduler_manual", 1, true, scn::scheduler_manual(o, R, o.cases));
    RUN("scheduler_virtual", 1, true, scn::scheduler_virtual(o, R, o.cases / 10 + 1));
    RUN("scheduler_threads", 1, true, scn::scheduler_threads(o, R, T, o.cases / 100 + 1));
    RUN("scheduler_stop_race", 1, true, scn::scheduler_stop_race(o, R, T, o.cases / 20 + 1));
    RUN("scheduler_interval_stop", 1, true, scn::scheduler_interval_stop(o, R, T, o.cases / 300 + 1));
    RUN("scheduler_pool_rearm", 1, true, scn::scheduler_pool_rearm(o, R, o.cases / 300 + 1));
    return 0;
}
