// C15 - signal: every waiting listener gets every value; disconnect wakes all
#include <scn/signal.h>
#define RUN(name, nthreads, wd, call) if (o.want(name)) { vf::report R("C15", name, o); vf::g_active_report = &R; vf::team T(nthreads, o, wd); call; T.export_hits(R); R.write(); vf::g_active_report = nullptr; }
int main(int argc, char **argv) {
    vf::opts o(argc, argv);
    vf::install_crash_handler();
    RUN("signal_history", 1, true, scn::signal_history(o, R, o.cases));
    RUN("signal_mt", o.threads, true, scn::signal_mt(o, R, T, o.cases));
    RUN("signal_string_values", 1, true, scn::signal_string_values(o, R, o.cases));
    RUN("signal_throwing_values", 1, true, scn::signal_throwing_values(o, R, o.cases));
    return 0;
}
