// C05 - coroutine-mode scheduling: run-to-suspension, FIFO ready queue, full drain
#include <vf/payload.h>
#include <scn/scheduling.h>
#define RUN(name, nthreads, wd, call) if (o.want(name)) { vf::report R("C05", name, o); vf::g_active_report = &R; vf::team T(nthreads, o, wd); call; T.export_hits(R); R.write(); vf::g_active_report = nullptr; }
int main(int argc, char **argv) {
    vf::opts o(argc, argv);
    vf::install_crash_handler();
    RUN("scheduling_programs", 1, true, scn::scheduling_programs(o, R, o.cases));
    RUN("pool_stop_from_coroutine", 1, true, scn::pool_stop_from_coroutine(o, R, o.cases / 40 + 1));
    RUN("bare_coroutine_programs", 1, true, scn::bare_coroutine_programs(o, R, o.cases));
    return 0;
}
