// C02 - no lost, early or duplicate wake-up of a future's waiters
#include <scn/future.h>
#include <scn/async.h>
#define RUN(name, nthreads, wd, call) if (o.want(name)) { vf::report R("C02", name, o); vf::g_active_report = &R; vf::team T(nthreads, o, wd); call; T.export_hits(R); R.write(); vf::g_active_report = nullptr; }
int main(int argc, char **argv) {
    vf::opts o(argc, argv);
    vf::install_crash_handler();
    RUN("future_mt", o.threads, true, scn::future_mt(o, R, T, o.cases, scn::FUT_C02));
    RUN("future_async_mt", o.threads, true, scn::future_async_mt(o, R, T, o.cases / 2 + 1));
    RUN("frame_owned_parties", 1, true, scn::frame_owned_parties(o, R, o.cases));
    RUN("callback_awaiter_reuse", 1, true, scn::callback_awaiter_reuse(o, R, o.cases));
    RUN("future_many_waiters", 1, true, scn::future_many_waiters(o, R, o.cases));
    return 0;
}
