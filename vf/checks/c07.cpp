// C07 - coroutine mutex: mutual exclusion and exactly-once grant
#include <scn/mutex.h>
#include <scn/scheduling.h>
int main(int argc, char **argv) {
    vf::opts o(argc, argv);
    vf::install_crash_handler();
    if (o.want("mutex_mt")) {
        vf::report R("C07", "mutex_mt", o);
        vf::g_active_report = &R;
        vf::team T(o.threads, o);
        scn::mutex_mt(o, R, T, o.cases, scn::MX_C07);
        T.export_hits(R);
        R.write();
        vf::g_active_report = nullptr;
    }
    if (o.want("mutex_fifo_history")) {
        vf::report R("C07", "mutex_fifo_history", o);
        vf::g_active_report = &R;
        vf::team T(1, o, false);
        scn::mutex_fifo_history(o, R, o.cases / 4 + 1);
        T.export_hits(R);
        R.write();
        vf::g_active_report = nullptr;
    }
    if (o.want("ownership_object_history")) {
        vf::report R("C07", "ownership_object_history", o);
        vf::g_active_report = &R;
        vf::team T(1, o, true);
        scn::ownership_object_history(o, R, o.cases);
        T.export_hits(R);
        R.write();
        vf::g_active_report = nullptr;
    }
    if (o.want("mutex_callback_parties")) {
        vf::report R("C07", "mutex_callback_parties", o);
        vf::g_active_report = &R;
        vf::team T(1, o, true);
        scn::mutex_callback_parties(o, R, o.cases);
        T.export_hits(R);
        R.write();
        vf::g_active_report = nullptr;
    }
    if (o.want("bare_coroutine_programs")) { // "each coroutine waiting for the lock is resumed exactly once" when the releaser is a foreign coroutine (no ready queue)
        vf::report R("C07", "bare_coroutine_programs", o);
        vf::g_active_report = &R;
        vf::team T(1, o, true);
        scn::bare_coroutine_programs(o, R, o.cases);
        T.export_hits(R);
        R.write();
        vf::g_active_report = nullptr;
    }
    return 0;
}
