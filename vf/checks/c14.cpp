// C14 - generator aggregator: union of all sources, per-source order preserved
#include <scn/generator.h>
#define RUN(name, nthreads, wd, call) if (o.want(name)) { vf::report R("C14", name, o); vf::g_active_report = &R; vf::team T(nthreads, o, wd); call; T.export_hits(R); R.write(); vf::g_active_report = nullptr; }
int main(int argc, char **argv) {
    vf::opts o(argc, argv);
    vf::install_crash_handler();
    RUN("aggregator_programs", 2, true, scn::aggregator_programs(o, R, T, o.cases));
    return 0;
}
