// C20 - the core synchronisation primitives never allocate.
// Global operator new is replaced. Inside a measured region every allocation is attributed:
//  (i)  coroutine frames the program creates (harness flag set around the creating call) - counted, allowed, and required to be
//       zero when the coroutines use a non-heap storage policy (warm reusable_storage);
//  (ii) the thread-local ready queue (std::deque<coroutine_handle<>> frames on the stack, found by backtrace()+dladdr) - belongs
//       to the scheduler, not to the primitives: counted and reported separately;
//  (iii) anything else => violation with the symbolised stack.
// Build: -O0 -fno-inline -rdynamic (attribution needs real frames).
#include <vf/team.h>
#include <vf/payload.h>
#include <cocls/future.h>
#include <cocls/async.h>
#include <cocls/mutex.h>
#include <cocls/generator.h>
#include <cocls/coro_storage.h>
#include <cocls/alloca_storage.h>
#include <alloca.h>
#include <cocls/with_allocator.h>
#include <cocls/callback_awaiter.h>
#include <cstring>
#include <execinfo.h>
#include <dlfcn.h>
#include <new>
#include <thread>

namespace al {
std::atomic<int> measuring{0};
thread_local int creating = 0;
thread_local int in_hook = 0;
std::atomic<long> frames{0}, deque_allocs{0}, other{0}, total{0}, sp_heap{0};
char other_stack[4096];
std::atomic<int> other_recorded{0};

void on_alloc(std::size_t n) {
    total.fetch_add(1, std::memory_order_relaxed);
    if (creating) { frames.fetch_add(1, std::memory_order_relaxed); return; }
    void *bt[40];
    int k = backtrace(bt, 40);
    bool is_deque = false, is_sp = false;
    for (int i = 0; i < k; i++) {
        Dl_info di;
        if (dladdr(bt[i], &di) && di.dli_sname && (strstr(di.dli_sname, "St5dequeINSt7__n486116coroutine_handle") || strstr(di.dli_sname, "_Deque_base"))) { is_deque = true; break; }
        if (dladdr(bt[i], &di) && di.dli_sname && strstr(di.dli_sname, "_ZN5cocls13suspend_pointIvE3addE")) is_sp = true;
    }
    // a suspend point that has to carry MORE than three ready coroutines documents a heap block; whether that is legitimate is decided per program
    if (is_sp && !is_deque) { sp_heap.fetch_add(1, std::memory_order_relaxed); return; }
    if (is_deque) { deque_allocs.fetch_add(1, std::memory_order_relaxed); return; }
    other.fetch_add(1, std::memory_order_relaxed);
    int e = 0;
    if (other_recorded.compare_exchange_strong(e, 1)) {
        size_t pos = 0;
        pos += (size_t)snprintf(other_stack + pos, sizeof other_stack - pos, "alloc of %zu bytes: ", n);
        for (int i = 2; i < k && pos + 200 < sizeof other_stack; i++) {
            Dl_info di;
            const char *nm = (dladdr(bt[i], &di) && di.dli_sname) ? di.dli_sname : "?";
            pos += (size_t)snprintf(other_stack + pos, sizeof other_stack - pos, "%s <- ", nm);
        }
    }
}
struct creating_scope { creating_scope() { creating++; } ~creating_scope() { creating--; } };
struct region {
    long f0, d0, o0, s0;
    region() { f0 = frames; d0 = deque_allocs; o0 = other; s0 = sp_heap; measuring.store(1); }
    long nsp() const { return sp_heap - s0; }
    ~region() { measuring.store(0); }
    long nframes() const { return frames - f0; }
    long ndeque() const { return deque_allocs - d0; }
    long nother() const { return other - o0; }
};
} // namespace al

void *operator new(std::size_t n) {
    void *p = malloc(n ? n : 1);
    if (!p) throw std::bad_alloc();
    if (al::measuring.load(std::memory_order_relaxed) && !al::in_hook) { al::in_hook = 1; al::on_alloc(n); al::in_hook = 0; }
    return p;
}
void *operator new[](std::size_t n) { return operator new(n); }
void operator delete(void *p) noexcept { free(p); }
void operator delete[](void *p) noexcept { free(p); }
void operator delete(void *p, std::size_t) noexcept { free(p); }
void operator delete[](void *p, std::size_t) noexcept { free(p); }

namespace scn {
using vf::tracked;
struct pod8 { uint64_t w[8]; };

// ---- coroutine bodies (heap policy and warm reusable storage policy)
struct c20_ctx { int sum = 0; int released = 0; };
template <typename T> cocls::async<void> waiter_heap(cocls::future<T> &f, c20_ctx &C) { bool hv = co_await f.has_value(); C.released++; C.sum += hv; }
template <typename T> cocls::with_allocator<cocls::reusable_storage, cocls::async<void>> waiter_reuse(cocls::reusable_storage &, cocls::future<T> &f, c20_ctx &C) { bool hv = co_await f.has_value(); C.released++; C.sum += hv; }
inline cocls::async<void> locker_heap(cocls::mutex &mx, c20_ctx &C, int style) {
    auto own = co_await mx.lock();
    C.released++;
    if (style == 0) own.release(); else if (style == 1) co_await own.release();
}
inline cocls::with_allocator<cocls::reusable_storage, cocls::async<void>> locker_reuse(cocls::reusable_storage &, cocls::mutex &mx, c20_ctx &C, int style) {
    auto own = co_await mx.lock();
    C.released++;
    if (style == 0) own.release(); else if (style == 1) co_await own.release();
}
inline cocls::async<void> parked_heap(cocls::future<void> &gate, c20_ctx &C) { bool hv = co_await gate.has_value(); (void)hv; C.released++; }
inline cocls::generator<int> gen_counting(int n) { for (int i = 0; i < n; i++) co_yield i; }
inline cocls::generator<int, int> gen_with_arg(int n) { int acc = co_yield nullptr; for (int i = 0; i < n; i++) { int x = co_yield acc; acc += x; } }

struct cb_aw : cocls::awaiter {
    c20_ctx *C;
    cb_aw() { set_resume_fn(&fire, this); }
    static cocls::suspend_point<void> fire(cocls::awaiter *, void *p) noexcept { static_cast<cb_aw *>(p)->C->released++; return {}; }
};

// persistent helper thread for blocking waiters (created outside measured regions)
struct helper_thread {
    std::atomic<int> cmd{0}; // 0 idle, 1 run, 2 quit
    std::function<void()> job;
    std::thread th;
    helper_thread() : th([this] { for (;;) { int c; while ((c = cmd.load(std::memory_order_acquire)) == 0) std::this_thread::yield(); if (c == 2) return; job(); cmd.store(0, std::memory_order_release); } }) {}
    void start(std::function<void()> j) { job = std::move(j); cmd.store(1, std::memory_order_release); }
    void wait() { while (cmd.load(std::memory_order_acquire) == 1) std::this_thread::yield(); }
    ~helper_thread() { wait(); cmd.store(2); th.join(); }
};

template <typename T> T mkval(int i) { if constexpr (std::is_same_v<T, int>) return i; else { T v{}; v.w[0] = (uint64_t)i; return v; } }

template <typename T>
std::string prog_future(vf::rng &r, bool nonheap, std::vector<cocls::reusable_storage> &stor, helper_thread *Hs, std::string &desc, long &frames, long &deq) {
    int ncoro = (int)r.below(9), ncb = (int)r.below(4);
    int nblock = r.chance(1, 2) ? (int)r.below(5) : 0; // 0-4 threads blocked in sync()
    bool blocking = nblock > 0, from_coro = false;
    int how = (int)r.below(3); // value, drop, destruction
    desc = std::string("future<") + (std::is_same_v<T, int> ? "int" : "pod8") + "> coro_waiters=" + std::to_string(ncoro) + " callback_waiters=" + std::to_string(ncb) + (blocking ? " blocking_waiters=" + std::to_string(nblock) : "") + " resolve=" + std::to_string(how) + (nonheap ? " nonheap" : "");
    c20_ctx C;
    cb_aw cbs[4];
    std::function<void()> hjob; // built before the region (std::function may allocate)
    cocls::future<T> *fptr = nullptr;
    std::atomic<int> woke{0};
    if (blocking) hjob = [&] { fptr->sync(); woke.fetch_add(1, std::memory_order_relaxed); };
    (void)from_coro;
    std::string err;
    {
        al::region reg;
        {
            cocls::future<T> f;
            fptr = &f;
            cocls::promise<T> p = f.get_promise();
            for (int i = 0; i < ncoro; i++) {
                if (nonheap) { al::creating++; auto a = waiter_reuse<T>(stor[(size_t)i], f, C); al::creating--; a.detach(); }
                else { al::creating++; auto a = waiter_heap<T>(f, C); al::creating--; a.detach(); }
            }
            for (int i = 0; i < ncb; i++) { cbs[i].C = &C; if (!f.operator co_await().subscribe(&cbs[i])) C.released++; }
            if (blocking) {
                uint64_t h0 = vf::total_site_hits(cocls::verif::sync_pre_wait);
                for (int i = 0; i < nblock; i++) Hs[i].start(hjob);
                // wait until every helper is really subscribed (it passed the hook in front of its futex wait), bounded
                uint64_t t0 = vf::rdtsc();
                while (vf::total_site_hits(cocls::verif::sync_pre_wait) - h0 < (uint64_t)nblock && vf::rdtsc() - t0 < 300000000ull) vf::cpu_relax();
            }
            if (how == 0) p(mkval<T>(5)); else if (how == 1) p(cocls::drop); else { cocls::promise<T> q = std::move(p); }
            if (blocking) for (int i = 0; i < nblock; i++) Hs[i].wait();
            (void)f.ready();
            // the reader asks for the result: a value, or - for a dropped / destroyed promise - await_canceled_exception (the exception
            // object itself comes from the C++ runtime's own allocator, not from operator new)
            try { auto &v = f.value(); (void)v; if (how != 0) err = "harness: dropped future delivered a value"; }
            catch (const cocls::await_canceled_exception &) { if (how == 0) err = "harness: resolved future reported no value"; }
        }
        frames = reg.nframes(); deq = reg.ndeque();
        if (!err.empty()) {}
        else if (reg.nother()) err = std::string("allocation by the primitives: ") + al::other_stack;
        else if (reg.nsp() && ncoro <= 3) err = "suspend point carrying " + std::to_string(ncoro) + " (<= 3) ready coroutines allocated heap memory (" + std::to_string(nblock) + " blocking and " + std::to_string(ncb) + " callback waiters carry no coroutine)";
        else if (woke.load() != nblock) err = "harness: blocking waiters not released";
        else if (C.released != ncoro + ncb) err = "harness: not all waiters released";
        else if (nonheap && frames) err = "coroutine frames were heap allocated although a warm reusable storage was supplied";
    }
    return err;
}

// ---- the other non-heap frame policies: stack_storage (alloca block of the learned size), placement_alloc, reusable_buffer_storage.
// "The only allocations in such programs are the coroutine frames the user creates (and those too disappear under a non-heap
// storage policy)": after one learning / warming call per size word or buffer, rounds of future and mutex traffic whose coroutine
// frames use these policies must not call operator new at all.
template <typename St> cocls::with_allocator<St, cocls::async<void>> waiter_pol(St &, cocls::future<int> &f, c20_ctx &C) { bool hv = co_await f.has_value(); C.released++; C.sum += hv; }
template <typename St> cocls::with_allocator<St, cocls::async<void>> locker_pol(St &, cocls::mutex &mx, c20_ctx &C) { auto own = co_await mx.lock(); C.released++; own.release(); }
template <typename St> void pol_round(St &st, c20_ctx &C, int what) {
    if (what == 0) { // future awaited by a coroutine, resolved by ordinary code
        cocls::future<int> f; cocls::promise<int> p = f.get_promise();
        { al::creating++; auto a = waiter_pol<St>(st, f, C); al::creating--; a.detach(); }
        p(7);
    } else { // mutex held by ordinary code, handed over to a contending coroutine
        cocls::mutex mx;
        auto own = mx.try_lock();
        { al::creating++; auto a = locker_pol<St>(st, mx, C); al::creating--; a.detach(); }
        own.release();
    }
}
inline void pol_stack_round(std::size_t &word, c20_ctx &C, int what) {
    cocls::stack_storage st(word);
    st = alloca(st);
    pol_round(st, C, what);
}
inline std::string prog_other_policies(vf::rng &r, std::string &desc, long &frames, long &deq) {
    int policy = (int)r.below(3), rounds = 2 + (int)r.below(6);
    static const char *pn[] = {"stack_storage (learned size word)", "placement_alloc", "reusable_buffer_storage<vector<char>>"};
    desc = std::string("frames on ") + pn[policy] + ", rounds=" + std::to_string(rounds);
    c20_ctx C;
    std::size_t word[2] = {0, 0};
    alignas(16) char pbuf[1024];
    std::vector<char> vbuf;
    int want = 0;
    // learning / warming call per (policy, coroutine function): outside the measured region
    for (int what = 0; what < 2; what++) {
        want++;
        if (policy == 0) pol_stack_round(word[what], C, what);
        else if (policy == 2) { cocls::reusable_buffer_storage<std::vector<char>> st(vbuf); pol_round(st, C, what); }
    }
    if (policy == 1) want = 0;
    std::string err;
    {
        al::region reg;
        for (int k = 0; k < rounds; k++) {
            int what = (int)r.below(2);
            want++;
            if (policy == 0) pol_stack_round(word[what], C, what);
            else if (policy == 1) { cocls::placement_alloc st(pbuf); pol_round(st, C, what); }
            else { cocls::reusable_buffer_storage<std::vector<char>> st(vbuf); pol_round(st, C, what); }
        }
        frames = reg.nframes(); deq = reg.ndeque();
        if (reg.nother()) err = std::string("allocation by the primitives: ") + al::other_stack;
        else if (frames) err = "coroutine frames were heap allocated " + std::to_string(frames) + " times in " + std::to_string(rounds) + " rounds although the " + pn[policy] + " policy had already seen frames of these coroutines";
        else if (C.released != want) err = "harness: not all coroutines completed";
    }
    return err;
}

inline std::string prog_mutex(vf::rng &r, bool nonheap, std::vector<cocls::reusable_storage> &stor, helper_thread *Hs, std::string &desc, long &frames, long &deq) {
    helper_thread &H = Hs[0];
    int n = 2 + (int)r.below(5);
    bool blocking = r.chance(1, 3);
    desc = "mutex contenders=" + std::to_string(n) + (blocking ? " blocking_contender" : "") + (nonheap ? " nonheap" : "");
    c20_ctx C;
    int styles[8]; for (int i = 0; i < n; i++) styles[i] = (int)r.below(3);
    cocls::mutex *mptr = nullptr;
    std::function<void()> hjob = [&] { cocls::mutex::ownership own(mptr->lock()); C.sum++; };
    std::string err;
    {
        al::region reg;
        {
            cocls::mutex mx; mptr = &mx;
            {
                cocls::mutex::ownership outer = mx.try_lock();
                for (int i = 0; i < n; i++) {
                    if (nonheap) { al::creating++; auto a = locker_reuse(stor[(size_t)i], mx, C, styles[i]); al::creating--; a.detach(); }
                    else { al::creating++; auto a = locker_heap(mx, C, styles[i]); al::creating--; a.detach(); }
                }
                if (blocking) { H.start(hjob); for (int i = 0; i < 2000; i++) vf::cpu_relax(); }
                if (r.chance(1, 2)) outer.release();
            }
            if (blocking) H.wait();
            auto again = mx.try_lock();
            if (!again) err = "harness: mutex still locked";
        }
        frames = reg.nframes(); deq = reg.ndeque();
        if (err.empty() && reg.nother()) err = std::string("allocation by the primitives: ") + al::other_stack;
        else if (err.empty() && reg.nsp()) err = "suspend point allocated heap memory during a mutex hand-over (one ready coroutine)";
        else if (err.empty() && C.released != n) err = "harness: not all contenders got the lock";
        else if (err.empty() && nonheap && frames) err = "coroutine frames were heap allocated although a warm reusable storage was supplied";
    }
    return err;
}

inline std::string prog_suspend_point(vf::rng &r, std::string &desc, long &frames, long &deq) {
    int k = (int)r.below(4); // 0..3 handles
    int op = (int)r.below(4);
    desc = "suspend_point handles=" + std::to_string(k) + " op=" + std::to_string(op);
    c20_ctx C;
    std::string err;
    {
        al::region reg;
        {
            cocls::future<void> gate; auto gp = gate.get_promise();
            for (int i = 0; i < k; i++) { al::creating++; auto a = parked_heap(gate, C); al::creating--; a.detach(); }
            cocls::suspend_point<bool> sp = gp(); // carries k ready coroutines (<= inline capacity 3)
            if ((int)sp.size() != k) err = "harness: unexpected handle count";
            if (op == 0) { /* destroyed: flush */ }
            else if (op == 1) { cocls::suspend_point<void> m(std::move(sp)); cocls::suspend_point<void> n; n << std::move(m); }
            else if (op == 2) { while (!sp.empty()) sp.pop().resume(); }
            else { cocls::suspend_point<void> a; a = std::move(sp); a.clear(); }
        }
        frames = reg.nframes(); deq = reg.ndeque();
        if (err.empty() && reg.nother()) err = std::string("allocation by the primitives: ") + al::other_stack;
        else if (err.empty() && reg.nsp()) err = "suspend point carrying " + std::to_string(k) + " (<= 3) ready coroutines allocated heap memory";
        else if (err.empty() && C.released != k) err = "harness: carried coroutines not resumed";
    }
    return err;
}

inline std::string prog_generator(vf::rng &r, std::string &desc, long &frames, long &deq, bool direct_styles_only = false) {
    int n = (int)r.below(20), style = (int)r.below(4);
    // style 2 (call operator returning a future) is routed through the thread's ready queue by design; the other styles resume the
    // generator directly
    while (direct_styles_only && style == 2) style = (int)r.below(4);
    desc = "sync generator items=" + std::to_string(n) + " style=" + std::to_string(style);
    std::string err;
    {
        al::region reg;
        {
            long got = 0, want = 0;
            if (style == 3) {
                al::creating++; auto g = gen_with_arg(n); al::creating--;
                int sum = 0;
                for (int i = 0; i <= n + 1; i++) {
                    int a = i + 1;
                    // the argument is passed as a variable or as a temporary (both are documented forms)
                    bool more = (i + n) % 2 ? (bool)g.next(a) : (bool)g.next(i + 1);
                    if (!more) break;
                    sum += a; got++;
                    if (g.value() != sum) { err = "generator with argument yielded " + std::to_string(g.value()) + " instead of " + std::to_string(sum); break; }
                }
                if (err.empty() && got != n) err = "generator with argument produced " + std::to_string(got) + " values instead of " + std::to_string(n);
                (void)want;
            } else {
                al::creating++; auto g = gen_counting(n); al::creating--;
                if (style == 0) { while (g.next()) { got += g.value(); } }
                else if (style == 1) { for (int &v : g) got += v; }
                else { for (;;) { cocls::future<int> f = g(); if (!f.has_value()) break; got += *f; } }
                want = (long)n * (n - 1) / 2;
                if (got != want) err = "generator yielded a wrong sequence";
            }
        }
        frames = reg.nframes(); deq = reg.ndeque();
        if (err.empty() && reg.nother()) err = std::string("allocation by the primitives: ") + al::other_stack;
    }
    return err;
}

// ---- awaiting by the callback awaiter in its packaged form (callback_await / callback_await_alloc): the library creates ONE coroutine
// frame per registration (in the supplied storage, when one is supplied); the callback closure and the arguments live inside that
// frame whatever their size
template <size_t PAD> struct cba_closure {
    c20_ctx *C; char pad[PAD];
    void operator()(cocls::await_result<int> r) { C->released++; if (r) C->sum += *r; }
};
template <size_t PAD> void cba_register(bool nonheap, cocls::reusable_storage &st, cocls::future<int> *&fptr_out, cocls::promise<int> &prom, c20_ctx &C, bool resolved_first, int how) {
    (void)fptr_out;
    cba_closure<PAD> cl; cl.C = &C; memset(cl.pad, 1, PAD);
    auto mk = [&prom, resolved_first, how] { return cocls::future<int>([&](cocls::promise<int> p) { if (resolved_first) { if (how == 0) p(3); else p(cocls::drop); } else prom = std::move(p); }); };
    al::creating++;
    // rvalues: an lvalue callable would be kept BY REFERENCE in the frame (library contract, see DESIGN 8.3a)
    if (nonheap) cocls::callback_await_alloc<cocls::reusable_storage, cocls::future<int>>(st, std::move(cl), std::move(mk));
    else cocls::callback_await<cocls::future<int>>(std::move(cl), std::move(mk));
    al::creating--;
}
inline void cba_dispatch(int padsel, bool nonheap, cocls::reusable_storage &st, cocls::future<int> *&fp, cocls::promise<int> &prom, c20_ctx &C, bool rf, int how) {
    switch (padsel) {
    case 0: cba_register<8>(nonheap, st, fp, prom, C, rf, how); break;
    case 1: cba_register<48>(nonheap, st, fp, prom, C, rf, how); break;
    case 2: cba_register<56>(nonheap, st, fp, prom, C, rf, how); break;
    case 3: cba_register<72>(nonheap, st, fp, prom, C, rf, how); break;
    default: cba_register<248>(nonheap, st, fp, prom, C, rf, how); break;
    }
}
inline std::string prog_callback_await(vf::rng &r, bool nonheap, std::vector<cocls::reusable_storage> &stor, std::string &desc, long &frames, long &deq) {
    static const int pads[] = {8, 48, 56, 72, 248};
    int nreg = 1 + (int)r.below(3);
    int padsel[3], how[3]; bool rf[3];
    desc = std::string(nonheap ? "callback_await_alloc(warm reusable storage)" : "callback_await") + " registrations=" + std::to_string(nreg) + " closures:";
    for (int i = 0; i < nreg; i++) { padsel[i] = (int)r.below(5); how[i] = (int)r.below(2); rf[i] = r.chance(1, 3); desc += " " + std::to_string(pads[padsel[i]] + 8) + "B/" + (rf[i] ? "ready" : "parked") + (how[i] ? "/drop" : "/value"); }
    c20_ctx C; std::string err;
    {
        al::region reg;
        {
            cocls::promise<int> prom[3]; cocls::future<int> *fp = nullptr;
            for (int i = 0; i < nreg; i++) cba_dispatch(padsel[i], nonheap, stor[(size_t)i], fp, prom[i], C, rf[i], how[i]);
            for (int i = 0; i < nreg; i++) if (!rf[i]) { if (how[i] == 0) prom[i](3); else prom[i](cocls::drop); }
        }
        frames = reg.nframes(); deq = reg.ndeque();
        if (reg.nother()) err = std::string("allocation by the primitives: ") + al::other_stack;
        else if (C.released != nreg) err = "harness: callbacks called " + std::to_string(C.released) + " times for " + std::to_string(nreg) + " registrations";
        else if (nonheap && frames) err = "callback_await_alloc with a warm storage allocated " + std::to_string(frames) + " heap block(s): the frame, the closure and the arguments belong into the supplied storage";
        else if (!nonheap && frames != nreg) err = "callback_await made " + std::to_string(frames) + " heap allocations for " + std::to_string(nreg) + " registrations (exactly one coroutine frame each is expected)";
    }
    return err;
}

// Programs that involve no asynchronous coroutine at all (a synchronous generator stepped by ordinary code; future/promise with
// callback awaiters and polling; try_lock/unlock) do not need the thread's ready queue either. Run on a BRAND-NEW thread, where the
// thread-local ready queue has never been touched, such a program must not allocate anything but the generator frame itself - not
// even the one-time ready-queue blocks that are tolerated elsewhere. (The generator's call operator, which returns a future, goes
// through the ready queue by design and is therefore stepped on warmed threads only.)
inline std::string prog_cold_thread(vf::rng &r, std::string &desc, long &frames, long &deq) {
    int what = (int)r.below(3);
    std::string err, d2; long fr = 0, dq = 0;
    vf::rng r2(r.next());
    d2.reserve(256); err.reserve(1024);
    std::thread t([&] {
        if (what == 0) err = prog_generator(r2, d2, fr, dq, true);
        else if (what == 1) { // future resolved and observed without any coroutine
            d2 = "future<int> with callback awaiters and polling only";
            c20_ctx C; cb_aw cbs[3];
            al::region reg;
            {
                cocls::future<int> f; auto p = f.get_promise();
                int ncb = 1 + (int)r2.below(3);
                for (int i = 0; i < ncb; i++) { cbs[i].C = &C; if (!f.subscribe(&cbs[i])) cbs[i].resume(); }
                bool pending = !f.ready();
                cocls::promise<int> q = std::move(p);
                int how = (int)r2.below(3);
                if (how == 0) q(7); else if (how == 1) q(cocls::drop); else { cocls::promise<int> gone = std::move(q); }
                if (!pending || !f.ready() || C.released != ncb) err = "harness: callback waiters not released";
                if (err.empty() && how == 0 && f.value() != 7) err = "harness: wrong value";
            }
            fr = reg.nframes(); dq = reg.ndeque();
            if (err.empty() && reg.nother()) err = std::string("allocation by the primitives: ") + al::other_stack;
        } else { // mutex used by ordinary code only
            d2 = "mutex try_lock / blocking lock / release by ordinary code";
            al::region reg;
            {
                cocls::mutex mx;
                { auto own = mx.try_lock(); if (!own) err = "harness: try_lock on a free mutex failed"; auto own2 = mx.try_lock(); if (own2) err = "harness: second try_lock succeeded"; }
                { auto own = mx.lock().wait(); own.release(); }
                { auto own = mx.try_lock(); if (!own) err = "harness: mutex not free after release"; }
            }
            fr = reg.nframes(); dq = reg.ndeque();
            if (err.empty() && reg.nother()) err = std::string("allocation by the primitives: ") + al::other_stack;
        }
        if (err.empty() && dq) err = "ready-queue blocks allocated on a fresh thread by a program that involves no asynchronous coroutine (" + d2 + ")";
    });
    t.join();
    desc = "[fresh thread] " + d2; frames = fr; deq = dq;
    return err;
}

inline void alloc_free_programs(const vf::opts &o, vf::report &R, uint64_t programs) {
    vf::rng master(vf::mix(o.seed, 0x20));
    helper_thread Hs[4];
    std::vector<cocls::reusable_storage> stor(10);
    { void *bt[4]; backtrace(bt, 4); } // first call loads libgcc (allocates): keep it out of measured regions
    try { throw cocls::await_canceled_exception(); } catch (const cocls::await_canceled_exception &) {} // first throw initialises the unwinder
    // warm-up of the reusable storages and of the thread-local ready queue (outside measured regions)
    {
        c20_ctx C; cocls::future<pod8> f; auto p = f.get_promise();
        for (auto &s : stor) waiter_reuse<pod8>(s, f, C).detach();
        p(cocls::drop);
        cocls::mutex mx; { auto own = mx.try_lock(); for (auto &s : stor) locker_reuse(s, mx, C, 1).detach(); }
        cocls::promise<int> wp[3]; cocls::future<int> *fp = nullptr;
        for (int i = 0; i < 3; i++) { cba_dispatch(4, true, stor[(size_t)i], fp, wp[i], C, false, 0); wp[i](1); }
    }
    long total_frames = 0, total_deque = 0;
    for (uint64_t pn = 0; pn < programs && R.nviol() < 5; pn++) {
        vf::rng r(master.next());
        vf::set_crash_ctx(R.prop.c_str(), "alloc_free_programs", o.seed, pn);
        std::string desc, err; long fr = 0, dq = 0;
        bool nonheap = r.chance(1, 3);
        al::other_recorded.store(0);
        if (pn % 8 == 5) { err = prog_other_policies(r, desc, fr, dq); }
        else switch (pn % 8 == 3 ? 6u : r.below(pn % 8 == 7 ? 6 : 5)) {
        case 6: err = prog_callback_await(r, nonheap, stor, desc, fr, dq); break;
        case 5: err = prog_cold_thread(r, desc, fr, dq); break;
        case 0: err = prog_future<int>(r, nonheap, stor, Hs, desc, fr, dq); break;
        case 1: err = prog_future<pod8>(r, nonheap, stor, Hs, desc, fr, dq); break;
        case 2: err = prog_mutex(r, nonheap, stor, Hs, desc, fr, dq); break;
        case 3: err = prog_suspend_point(r, desc, fr, dq); break;
        default: err = prog_generator(r, desc, fr, dq); break;
        }
        R.cases++;
        total_frames += fr; total_deque += dq;
        if (!err.empty()) { R.violation(err.rfind("harness", 0) == 0 ? "monitor:harness|alloc_free_programs" : "monitor:allocation|alloc_free_programs", err,
                                        vf::jobj().kv("program", desc).kv("index", (unsigned long long)pn).kv("frames", fr).kv("ready_queue_allocs", dq).kv("detail", err).str()); continue; }
        R.nontrivial_cases++;
        R.sig(desc);
        if (desc.rfind("[fresh thread]", 0) == 0) R.cls("programs_on_a_fresh_thread_with_zero_allocations_beyond_the_generator_frame");
        if (R.samples.size() < 5) R.sample(vf::jobj().kv("program", desc).kv("coroutine_frame_allocations", fr).kv("ready_queue_deque_allocations", dq).kv("other_allocations", 0).str());
    }
    R.cls("coroutine_frame_allocations", (uint64_t)total_frames);
    R.cls("ready_queue_deque_allocations", (uint64_t)total_deque);
    R.cls("allocations_seen_by_hook", (uint64_t)al::total.load());
    R.cls("suspend_point_heap_blocks_for_more_than_3_handles", (uint64_t)al::sp_heap.load());
}
} // namespace scn

#define RUN(name, nthreads, wd, call) if (o.want(name)) { vf::report R("C20", name, o); vf::g_active_report = &R; vf::team T(nthreads, o, wd); call; T.export_hits(R); R.write(); vf::g_active_report = nullptr; }
int main(int argc, char **argv) {
    vf::opts o(argc, argv);
    vf::install_crash_handler();
    RUN("alloc_free_programs", 1, false, scn::alloc_free_programs(o, R, o.cases)); // no watchdog thread: it would allocate inside measured regions
    return 0;
}
