// C10 - bounded queue: back-pressure without losing or duplicating items
#include <scn/queue.h>
#define RUN(name, nthreads, wd, call) if (o.want(name)) { vf::report R("C10", name, o); vf::g_active_report = &R; vf::team T(nthreads, o, wd); call; T.export_hits(R); R.write(); vf::g_active_report = nullptr; }
int main(int argc, char **argv) {
    vf::opts o(argc, argv);
    vf::install_crash_handler();
    RUN("lqueue_exhaustive", 1, true, scn::lqueue_exhaustive(o, R, (int)o.get("maxlen", 7)));
    RUN("lqueue_history", 1, true, scn::queue_history<true>(o, R, o.cases));
    RUN("lqueue_string_values", 1, true, scn::queue_string_values<true>(o, R, o.cases));
    RUN("lqueue_callback_consumer", 1, true, scn::queue_callback_consumer<true>(o, R, o.cases));
    RUN("lqueue_ring_container", 1, true, scn::lqueue_ring_container(o, R, o.cases));
    RUN("lqueue_mt", o.threads, true, scn::queue_mt<true>(o, R, T, o.cases));
    return 0;
}
