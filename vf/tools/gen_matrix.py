#!/usr/bin/env python3
"""Prints the detection matrix (markdown) for DESIGN.md section 9 from seeded/*/meta.json and a selftest log.
   gen_matrix.py [selftest log] [--update-design]   (--update-design rewrites the text between the MATRIX markers of DESIGN.md)"""
import ast, io, json, os, sys
V = os.path.dirname(os.path.dirname(os.path.dirname(os.path.abspath(__file__))))
UPDATE = '--update-design' in sys.argv
if UPDATE:
    sys.argv.remove('--update-design')
    _real = sys.stdout
    sys.stdout = io.StringIO()
print('#### Independently written breaking changes (`seeded/`)\n')
print('| id | breaks | needs to manifest | checks that catch it (quick command) | first verdict / strengthening |')
print('|---|---|---|---|---|')
for d in sorted(os.listdir(os.path.join(V, 'seeded'))):
    m = json.load(open(os.path.join(V, 'seeded', d, 'meta.json')))
    det = ', '.join('%s: %s' % (k, v['verdict']) for k, v in m.get('checks', {}).items())
    if m.get('obsolete'):
        det = 'n/a - ' + m['obsolete'].split(':')[0] + ' (see meta.json; exposed D18)'
    keys = []
    for k, v in m.get('checks', {}).items():
        if v['verdict'] == 'DETECTED':
            keys += [x.split('|', 2)[2] if x.count('|') >= 2 else x for x in v.get('keys', [])[:2]]
    first = m.get('strengthening', 'detected by the checks as they were')
    print('| %s | %s | %s | %s (%s) | %s |' % (d, m.get('breaks_property', m.get('property')), m.get('needs_to_manifest', ''), det, '; '.join(sorted(set(keys)))[:160].replace('|', '/'), first))
if len(sys.argv) > 1:
    spec = {m['patch']: m for m in json.load(open(os.path.join(V, 'vf/mutants/mutants.json')))['mutants']}
    print('\n#### Own mutants (`vf/mutants/`: reverse of every fix + one-site library changes)\n')
    print('| mutant | what it breaks | property | verdict | violation keys |')
    print('|---|---|---|---|---|')
    for l in open(sys.argv[1]):
        if l.startswith("('"):
            t = ast.literal_eval(l.strip())
            if t[1] == 'ctest':
                continue
            print('| %s | %s | %s | %s | %s |' % (t[0].replace('.patch', ''), spec.get(t[0], {}).get('breaks', ''), t[1], t[2], t[3][:170].replace('|', '/')))

if UPDATE:
    txt = sys.stdout.getvalue()
    sys.stdout = _real
    p = os.path.join(V, 'DESIGN.md')
    d = open(p).read()
    a = d.index('<!-- MATRIX-BEGIN -->') + len('<!-- MATRIX-BEGIN -->')
    b = d.index('<!-- MATRIX-END -->')
    open(p, 'w').write(d[:a] + '\n\n' + txt + '\n' + d[b:])
    print('DESIGN.md section 9 matrix updated (%d lines)' % txt.count('\n'))
