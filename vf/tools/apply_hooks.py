#!/usr/bin/env python3
"""One-shot helper that inserted the COCLS_VERIF hook lines into /repo/src/cocls.
Kept for documentation: every edit only ADDS whole lines next to a unique anchor."""
import sys, re
R = sys.argv[1] if len(sys.argv) > 1 else '/repo/src/cocls'
def P(s): return 'COCLS_VERIF_POINT(%s);' % s
def E(s, p='this', v='0'): return 'COCLS_VERIF_EVENT(%s, %s, %s);' % (s, p, v)
edits = []
def ins(file, anchor, text, where='before', count=1, all=False):
    edits.append((file, anchor, text, where, count, all))

ins('common.h', '#include <coroutine>\n', '#include "verif_hooks.h"\n', 'after')
# awaiter.h
ins('awaiter.h', '        while (!chain.compare_exchange_weak(_next, this, std::memory_order_release));\n',
    '        '+P('aw_sub_pre')+'\n', 'before')
ins('awaiter.h', '        while (!chain.compare_exchange_weak(_next, this, std::memory_order_release));\n',
    '        '+P('aw_sub_post')+'\n', 'after')
ins('awaiter.h', '        return resume_chain_lk(chain.exchange(nullptr, std::memory_order_acquire));\n',
    '        '+P('aw_chain_pre')+'\n')
ins('awaiter.h', '        return resume_chain_lk(chain.exchange(&ready_state, std::memory_order_acquire));\n',
    '        '+P('aw_chain_pre')+'\n')
ins('awaiter.h', '        suspend_point<void> ret;\n        while (chain) {\n',
    '        '+P('aw_chain_post')+'\n', 'mid1')
ins('awaiter.h', '            ret << y->resume();\n',
    '            '+E('ev_chain_node','y')+'\n            '+P('aw_chain_node')+'\n')
ins('awaiter.h', '            ret << y->resume();\n',
    '            '+P('aw_chain_node_done')+'\n', 'after')
ins('awaiter.h', '        while (!chain.compare_exchange_weak(_next, this, std::memory_order_release)) {\n',
    '        '+P('aw_subchk_pre')+'\n')
ins('awaiter.h', '                std::atomic_thread_fence(std::memory_order_acquire);\n',
    '                COCLS_VERIF_FENCE_ACQUIRE(&chain);\n                '+E('ev_subchk_ready')+'\n', 'after')
ins('awaiter.h', '                return false;\n            }\n        }\n        return true;\n',
    None, 'special_subchk')
ins('awaiter.h', '        set_handle(h);\n        return this->_owner.subscribe(this);\n', '        '+P('coaw_suspend')+'\n', 'mid1')
ins('awaiter.h', '        set_resume_fn(fn,user_ctx);\n        return this->_owner.subscribe(this);\n', '        '+P('coaw_suspend')+'\n', 'mid1')
ins('awaiter.h', '        flag.store(true);\n        flag.notify_all();\n', '        '+P('sync_wake_mid')+'\n', 'mid1')
ins('awaiter.h', '    sync_awaiter awt;\n    if (subscribe(&awt)) {\n',
    '    '+P('sync_pre_sub')+'\n', 'mid1', all=True)
ins('awaiter.h', '    if (subscribe(&awt)) {\n', '        '+P('sync_pre_wait')+'\n', 'after', all=True)
# future.h
ins('future.h', '        return _owner.exchange(nullptr, std::memory_order_relaxed);\n', '        '+P('prom_claim_pre')+'\n')
ins('future.h', '        auto m = claim();\n', '        '+P('prom_claim_post')+'\n', 'after', all=True)
ins('future.h', '            m->set(std::forward<Args>(args)...);\n', '            '+P('fut_set_post')+'\n', 'after', all=True)
ins('future.h', '        auto m = _owner.load(std::memory_order_relaxed);\n', '        '+P('prom_dtor')+'\n', 'after')
# async.h
ins('async.h', '            suspend_point<void> sp = f ? f->resolve():suspend_point<void>();\n', '            '+P('fin_pre_resolve')+'\n')
ins('async.h', '            me.destroy();\n', '            '+P('fin_pre_destroy')+'\n')
ins('async.h', '            me.destroy();\n', '            '+P('fin_post_destroy')+'\n', 'after')
ins('async.h', '            p._future = this;\n', '            '+P('async_await_suspend')+'\n', 'after')
# mutex.h
ins('mutex.h', '        awaiter *n = nullptr;\n', '        '+P('mx_ready_pre')+'\n', 'after')
ins('mutex.h', '        bool ok = _requests.compare_exchange_strong(n, doorman());\n', '        if (ok) {'+E('ev_mx_lock_fast')+'}\n', 'after')
ins('mutex.h', '        aw->subscribe(_requests);\n', '        '+P('mx_sub_post')+'\n', 'after')
ins('mutex.h', '        if (aw->_next== nullptr) [[likely]] {\n', '            '+E('ev_mx_lock_sub_free')+'\n', 'after')
ins('mutex.h', '            //we are subscribed, so continue in suspend\n', '            '+E('ev_mx_lock_wait')+'\n', 'after')
ins('mutex.h', '        assert(_requests.load(std::memory_order_relaxed) != nullptr);\n', '        '+P('mx_unlock_pre')+'\n', 'after')
ins('mutex.h', '                //if this passes, unlock operation is complete!\n', '                '+E('ev_mx_unlock_fast')+'\n', 'after')
ins('mutex.h', '            assert(x != nullptr);\n', '            '+P('mx_unlock_slow')+'\n', 'after')
ins('mutex.h', '        fn(first);\n', '        '+E('ev_mx_unlock_handover')+'\n        '+P('mx_unlock_grant')+'\n')
ins('mutex.h', '        awaiter *req = _requests.exchange(doorman(), std::memory_order_acquire);\n', '        '+P('mx_build_pre')+'\n')
ins('mutex.h', '        awaiter *req = _requests.exchange(doorman(), std::memory_order_acquire);\n', '        '+P('mx_build_post')+'\n', 'after')
ins('mutex.h', '            auto x = req;\n', '            '+E('ev_mx_rebuild_node','x')+'\n            '+P('mx_build_node')+'\n', 'after')
# queue.h
ins('queue.h', '            return p(std::forward<Args>(args)...);\n', '            '+P('q_push_unlocked')+'\n')
ins('queue.h', '            std::unique_lock lk(_mx);\n            if (_queue.empty()) {\n', '            '+P('q_pop_entry')+'\n')
ins('queue.h', '        return p.set_exception(e);', '        '+P('q_unblock_unlocked')+'\n')
ins('queue.h', '            p(std::forward<Args>(args)...);\n            return future<void>::set_value();\n', '            '+P('lq_push_unlocked')+'\n')
ins('queue.h', '                    lk.unlock();\n                    p();\n', '                    '+P('lq_pop_unlocked')+'\n', 'mid1')
ins('queue.h', '        return front.second.set_exception(e);\n', '        '+P('lq_unblock_unlocked')+'\n')
# thread_pool.h
ins('thread_pool.h', '            lk.unlock();\n            h();\n', '            '+P('tp_worker_dequeued')+'\n', 'mid1')
ins('thread_pool.h', '            h();\n', '            '+P('tp_worker_after_job')+'\n', 'after')
ins('thread_pool.h', '        auto me = std::this_thread::get_id();\n', '        '+P('tp_stop_flagged')+'\n')
ins('thread_pool.h', '                t.join();\n', '                '+P('tp_stop_pre_join')+'\n')
ins('thread_pool.h', '    void enqueue(q_item &&fn) {\n', '        '+P('tp_enqueue_entry')+'\n', 'after')
ins('thread_pool.h', '            _queue.push(std::move(fn));\n', '            '+E('ev_tp_enqueue_ok')+'\n', 'after')
ins('thread_pool.h', '               coro_queue::resume(h);\n           });\n', '           '+P('tp_await_enqueued')+'\n', 'after')
ins('thread_pool.h', '                return c == nullptr || c->_exit;\n', '                '+P('tp_current_ready')+'\n')
# scheduler.h
ins('scheduler.h', '          std::lock_guard _(_mx);\n          bool ntf =', '          '+P('sch_schedule_entry')+'\n')
ins('scheduler.h', '        auto p = remove(id);\n', '        '+P('sch_cancel_removed')+'\n', 'after')
ins('scheduler.h', '        std::stop_callback stop_notify(state, [&]{\n', '            '+P('sch_stop_cb')+'\n', 'after')
ins('scheduler.h', '            lk.unlock();\n            if constexpr(have_pool) {\n                co_await *pool;\n', '            '+P('sch_worker_loop')+'\n', 'mid1')
ins('scheduler.h', '            now = std::chrono::system_clock::now();\n', '            COCLS_VERIF_NOW_OVERRIDE(now);\n', 'after')
ins('scheduler.h', '                           _cond.wait_until(lk, x);\n',
    '                           '+P('sch_worker_pre_wait')+'\n#ifdef COCLS_VERIF\n                           if (::cocls::verif::wait_until_handler) ::cocls::verif::wait_until_handler(_cond, lk, x); else\n#endif\n', 'before', all=True)
ins('scheduler.h', '            _glob_state->_stp.request_stop();\n', '            '+P('sch_dtor_stop')+'\n')
# publisher.h
ins('publisher.h', '             lk.unlock();\n             for (awaiter *x: wk) x->resume();\n', '             '+P('pub_push_unlocked')+'\n', 'mid1')
ins('publisher.h', '            lk.unlock();\n            if (awt) awt->resume();\n', '            '+P('pub_kick_unlocked')+'\n', 'mid1')
ins('publisher.h', '            return _regs[h]._pos;\n', '            '+P('pub_position')+'\n')
# signal.h
ins('signal.h', '            return _state->notify_awaiters();\n', '            '+P('sig_emit_pre')+'\n', 'before', all=True)
ins('signal.h', '            _cur_val = nullptr;\n            notify_awaiters();\n', '            '+P('sig_state_dtor')+'\n', 'mid1')
ins('signal.h', '                set_handle(h);\n                this->subscribe(s->_chain);\n', '                '+P('sig_suspend_locked')+'\n', 'mid1')
ins('signal.h', '        reference await_resume() {\n', '            '+P('sig_resume')+'\n', 'after')
# shared_future.h
ins('shared_future.h', '       _ptr = ptr;\n', '       '+P('sf_charge_pre_sub')+'\n', 'after')
ins('shared_future.h', '            static_cast<resolve_cb *>(x)->_ptr = nullptr;\n', '            '+P('sf_tracer_fire')+'\n')
# generator.h
ins('generator.h', '                return caller->resume().pop();\n', '                '+P('gen_yield_suspend')+'\n')
ins('generator.h', '            _block.wait(false, std::memory_order_acquire);\n', '            '+P('gen_sync_pre_wait')+'\n')
ins('generator.h', '            _block.store(true, std::memory_order_release);\n', '            '+P('gen_unblock_sync')+'\n', 'after')
# coro_storage.h
ins('coro_storage.h', '        if (_busy.exchange(true, std::memory_order_relaxed)) {\n', '        '+P('rs_alloc_entry')+'\n')
ins('coro_storage.h', '        auto s = reinterpret_cast<reusable_storage_mtsafe **>(reinterpret_cast<char *>(p) + sz);\n', '        '+P('rs_alloc_flagged')+'\n')
ins('coro_storage.h', '        if (ptr == me->_ptr) {\n', '        '+P('rs_dealloc_entry')+'\n')
ins('coro_storage.h', '            me->_busy.store(false, std::memory_order_relaxed);\n', '            '+P('rs_dealloc_pre_store')+'\n')

files = {}
for (f, anchor, text, where, count, all_) in edits:
    src = files.get(f) or open(R+'/'+f).read()
    n = src.count(anchor)
    if n == 0: sys.exit('anchor not found in %s: %r' % (f, anchor))
    if n > 1 and not all_: sys.exit('anchor ambiguous (%d) in %s: %r' % (n, f, anchor))
    if where == 'before': rep = text + anchor
    elif where == 'after': rep = anchor + text
    elif where == 'mid1':
        i = anchor.index('\n')+1
        rep = anchor[:i] + text + anchor[i:]
    elif where == 'special_subchk':
        rep = ('                return false;\n            }\n            '+P('aw_subchk_retry')+'\n        }\n        '
               + E('ev_subchk_pushed') + '\n        ' + P('aw_subchk_post') + '\n        return true;\n')
    src = src.replace(anchor, rep)
    files[f] = src
for f, s in files.items():
    open(R+'/'+f, 'w').write(s)
print('ok', len(edits), 'edits in', len(files), 'files')
