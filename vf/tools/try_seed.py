#!/usr/bin/env python3
"""Confirms an independently written breaking change and runs the checks against it.

  try_seed.py <dir with patch.diff demo.cpp [NOTES.md]> <seed id> <property> [--props C01,C02] [--demo-flags "..."] [--keep]

Steps (all on a scratch copy of /repo outside /repo and /verif, removed afterwards):
  1. patch applies; repository builds; ctest passes (twice)
  2. demo passes on the original sources and fails with the change
  3. quick command of the given properties against the changed sources (VERIF_REPO) -> DETECTED / MISSED
Writes /verif/seeded/<seed id>/{patch.diff,demo.cpp,meta.json} when steps 1-2 are confirmed (or --keep).
"""
import json, os, shutil, subprocess, sys, tempfile, time

VERIF = os.path.dirname(os.path.dirname(os.path.dirname(os.path.abspath(__file__))))


def sh(cmd, timeout=1800, **kw):
    try:
        p = subprocess.run(cmd, shell=True, capture_output=True, text=True, timeout=timeout, **kw)
        return p.returncode, p.stdout + p.stderr
    except subprocess.TimeoutExpired as e:
        return 124, ((e.stdout or b'').decode(errors='replace') if isinstance(e.stdout, bytes) else (e.stdout or '')) + '\n[timeout]'


def main():
    a = sys.argv[1:]
    src, sid, prop = a[0], a[1], a[2]
    props = [prop]
    demo_flags = '-O1 -g'
    keep = '--keep' in a
    if '--props' in a:
        props = a[a.index('--props') + 1].split(',')
    if '--demo-flags' in a:
        demo_flags = a[a.index('--demo-flags') + 1]
    tmp = tempfile.mkdtemp(prefix='vf_seedchk_')
    meta = {'id': sid, 'property': prop, 'checked_properties': props, 'source_dir': src, 'demo_flags': demo_flags, 'ran': []}
    try:
        orig = os.path.join(tmp, 'orig'); mut = os.path.join(tmp, 'mut')
        for d in (orig, mut):
            os.makedirs(d)
            shutil.copytree('/repo/src', os.path.join(d, 'src'))
            shutil.copy('/repo/CMakeLists.txt', d); shutil.copy('/repo/library.cmake', d)
        rc, out = sh('patch -p1 -s -d %s -i %s' % (mut, os.path.abspath(os.path.join(src, 'patch.diff'))))
        meta['patch_applies'] = rc == 0
        meta['ran'].append('patch -p1 < patch.diff (rc %d)' % rc)
        if rc != 0:
            print('PATCH DOES NOT APPLY', out[-500:]); meta['note'] = out[-500:]
        else:
            changed = subprocess.run('diff -rq %s/src %s/src' % (orig, mut), shell=True, capture_output=True, text=True).stdout
            meta['files_changed'] = [l.split()[1].split('/src/')[-1] for l in changed.strip().split('\n') if l]
            rc, out = sh('cmake -G Ninja -B %s/_b -S %s >/dev/null 2>&1 && cmake --build %s/_b 2>&1 | tail -2' % (mut, mut, mut))
            meta['builds'] = rc == 0 and 'FAILED' not in out
            passes = 0; runs = 0; failed_tests = []
            while runs < 5 and passes < 2:  # test_generator_aggregator_async_infinite is flaky under load on the ORIGINAL tree too
                runs += 1
                rc, out = sh('ctest --test-dir %s/_b -j4 --timeout 900 2>&1 | tail -12' % mut)
                if '100% tests passed' in out:
                    passes += 1
                else:
                    failed_tests += [l.strip() for l in out.split('\n') if '(Failed)' in l or 'Timeout' in l or 'SEGFAULT' in l]
            meta['ctest_passes'] = '2/2' if passes >= 2 else '%d/%d' % (passes, runs)
            meta['ctest_runs'] = runs; meta['ctest_failed_tests_seen'] = sorted(set(failed_tests))
            meta['ran'].append('cmake+ninja build of the changed tree, ctest until 2 green runs (max 5): %d green of %d; failures seen: %s' % (passes, runs, sorted(set(failed_tests))))
            shutil.rmtree(os.path.join(mut, '_b'), ignore_errors=True)
            # demo both ways
            res = {}
            for name, d in (('original', orig), ('changed', mut)):
                exe = os.path.join(tmp, 'demo_' + name)
                rc, out = sh('g++ -std=c++20 %s -I%s/src %s -o %s -pthread' % (demo_flags, d, os.path.join(src, 'demo.cpp'), exe))
                if rc != 0:
                    res[name] = 'COMPILE-ERROR ' + out[-300:]
                    continue
                oks = 0; fails = 0; tail = ''
                for i in range(3):
                    rc, out = sh(exe, timeout=300, env=dict(os.environ, TSAN_OPTIONS='halt_on_error=1:exitcode=66', ASAN_OPTIONS='detect_leaks=1'))
                    if rc == 0 and not any(l.strip().startswith('FAIL') for l in out.split('\n')):
                        oks += 1
                    else:
                        fails += 1; tail = out[-200:].replace('\n', ' ')
                res[name] = 'pass %d/3, fail %d/3 %s' % (oks, fails, tail)
            meta['demo'] = res
            meta['ran'].append('demo.cpp compiled against original and changed sources, 3 runs each: ' + json.dumps(res))
            demo_ok = res.get('original', '').startswith('pass 3/3') and res.get('changed', '').startswith('pass 0/3')
            meta['demo_confirms'] = demo_ok
            # our checks
            det = {}
            for p in props:
                t0 = time.time()
                env = dict(os.environ, VERIF_REPO=mut, VERIF_BUILD=os.path.join(tmp, 'build'), VERIF_REPLAYS=os.path.join(tmp, 'replays'))
                r = subprocess.run(['python3', os.path.join(VERIF, 'vf/run.py'), '--prop', p, '--tier', 'quick', '--no-evidence'], capture_output=True, text=True, env=env, cwd=VERIF)
                keys = [l.strip()[5:] for l in r.stdout.split('\n') if l.strip().startswith('key: ')]
                det[p] = {'verdict': {1: 'DETECTED', 0: 'MISSED', 2: 'HARNESS-FAILURE'}.get(r.returncode, 'rc%d' % r.returncode), 'seconds': round(time.time() - t0), 'keys': keys[:6],
                          'tail': r.stdout.strip().split('\n')[-1][:200]}
                print(sid, p, det[p]['verdict'], det[p]['seconds'], 's', '; '.join(keys)[:300])
            meta['checks'] = det
            meta['ran'].append('quick command of %s with VERIF_REPO=<changed tree>' % ','.join(props))
        confirmed = meta.get('patch_applies') and meta.get('builds') and meta.get('ctest_passes') == '2/2' and meta.get('demo_confirms')
        meta['confirmed'] = bool(confirmed)
        print(json.dumps({k: meta[k] for k in ('patch_applies', 'builds', 'ctest_passes', 'demo', 'demo_confirms', 'confirmed') if k in meta}, indent=1))
        if confirmed or keep:
            out = os.path.join(VERIF, 'seeded', sid)
            os.makedirs(out, exist_ok=True)
            if os.path.realpath(src) != os.path.realpath(out):
                shutil.copy(os.path.join(src, 'patch.diff'), out)
                shutil.copy(os.path.join(src, 'demo.cpp'), out)
                if os.path.exists(os.path.join(src, 'NOTES.md')):
                    shutil.copy(os.path.join(src, 'NOTES.md'), out)
            prev = {}
            if os.path.exists(os.path.join(out, 'meta.json')):
                prev = json.load(open(os.path.join(out, 'meta.json')))
            hist = prev.get('history', [])
            if 'checks' in meta:
                hist.append({'at': time.strftime('%Y-%m-%d %H:%M'), 'verif_commit': subprocess.run(['git', '-C', VERIF, 'log', '--format=%h', '-n1'], capture_output=True, text=True).stdout.strip(), 'verdicts': {k: v['verdict'] for k, v in meta['checks'].items()}})
            prev.update(meta)
            prev['history'] = hist
            json.dump(prev, open(os.path.join(out, 'meta.json'), 'w'), indent=1)
    finally:
        shutil.rmtree(tmp, ignore_errors=True)


if __name__ == '__main__':
    main()
