#!/usr/bin/env python3-vt
import json, jsonschema, glob, sys
jsonschema.validate(json.load(open('/verif/MANIFEST.json')), json.load(open('/root/.vp/MANIFEST.schema.json')))
print('MANIFEST ok')
es = json.load(open('/root/.vp/EVIDENCE.schema.json'))
for f in sorted(glob.glob('/verif/evidence/*.json')):
    e = json.load(open(f))
    jsonschema.validate(e, es)
    c = e['coverage']
    print(f.split('/')[-1], 'ok', e['tier'], 'eval=%d distinct=%d viol=%d wall=%.0fs' % (c['evaluations'], c['distinct_nontrivial'], e.get('violations', 0), e['wall_s']))
