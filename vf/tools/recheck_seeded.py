#!/usr/bin/env python3
"""Re-runs the quick command of the target properties against every seeded change (scratch copy of /repo/src + patch, VERIF_REPO)
and updates seeded/<id>/meta.json (checks, history). Usage: recheck_seeded.py [id-substring ...]"""
import json, os, shutil, subprocess, sys, tempfile, time
VERIF = os.path.dirname(os.path.dirname(os.path.dirname(os.path.abspath(__file__))))
sel = sys.argv[1:]
rows = []
for d in sorted(os.listdir(os.path.join(VERIF, 'seeded'))):
    if sel and not any(s in d for s in sel):
        continue
    sd = os.path.join(VERIF, 'seeded', d)
    mp = os.path.join(sd, 'meta.json')
    m = json.load(open(mp))
    if m.get('obsolete'):
        rows.append((d, '-', 'OBSOLETE (no longer breaks the property on the repaired tree)')); print(rows[-1], flush=True); continue
    props = m.get('checked_properties') or [m['property']]
    tmp = tempfile.mkdtemp(prefix='vf_seedre_')
    try:
        shutil.copytree('/repo/src', os.path.join(tmp, 'src'))
        r = subprocess.run(['patch', '-p1', '-s', '-d', tmp, '-i', os.path.join(sd, 'patch.diff')], capture_output=True, text=True)
        if r.returncode != 0:
            rows.append((d, '-', 'PATCH-DOES-NOT-APPLY-TO-CURRENT-TREE')); print(rows[-1], flush=True); continue
        det = {}
        for p in props:
            t0 = time.time()
            env = dict(os.environ, VERIF_REPO=tmp, VERIF_BUILD=os.path.join(tmp, 'build'), VERIF_REPLAYS=os.path.join(tmp, 'replays'))
            q = subprocess.run(['python3', os.path.join(VERIF, 'vf/run.py'), '--prop', p, '--tier', 'quick', '--no-evidence'], capture_output=True, text=True, env=env, cwd=VERIF)
            keys = [l.strip()[5:] for l in q.stdout.split('\n') if l.strip().startswith('key: ')]
            det[p] = {'verdict': {1: 'DETECTED', 0: 'MISSED', 2: 'HARNESS-FAILURE'}.get(q.returncode, 'rc%d' % q.returncode), 'seconds': round(time.time() - t0), 'keys': keys[:6]}
            rows.append((d, p, det[p]['verdict'], '%ds %s' % (det[p]['seconds'], '; '.join(keys)[:200]))); print(rows[-1], flush=True)
        m['checks'] = det
        m.setdefault('history', []).append({'at': time.strftime('%Y-%m-%d %H:%M'), 'verif_commit': subprocess.run(['git', '-C', VERIF, 'log', '--format=%h', '-n1'], capture_output=True, text=True).stdout.strip(),
                                            'repo_commit': subprocess.run(['git', '-C', '/repo', 'log', '--format=%h', '-n1'], capture_output=True, text=True).stdout.strip(), 'verdicts': {k: v['verdict'] for k, v in det.items()}})
        json.dump(m, open(mp, 'w'), indent=1)
    finally:
        shutil.rmtree(tmp, ignore_errors=True)
print('\n| seeded change | property | verdict | detail |\n|---|---|---|---|')
for r in rows:
    print('| ' + ' | '.join(str(x) for x in r) + ' |')
