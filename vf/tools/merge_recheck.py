#!/usr/bin/env python3
"""merge_recheck.py <snapshot verif dir>   - takes the verdicts that vf/tools/recheck_seeded.py recorded in a snapshot run (vp run) over
into seeded/<id>/meta.json of this tree (fields 'checks' and the new 'history' entries). The snapshot's verdicts belong to its commit,
which the history entries name."""
import json, os, sys
V = os.path.dirname(os.path.dirname(os.path.dirname(os.path.abspath(__file__))))
snap = sys.argv[1]
n = 0
for d in sorted(os.listdir(os.path.join(snap, 'seeded'))):
    a = os.path.join(snap, 'seeded', d, 'meta.json'); b = os.path.join(V, 'seeded', d, 'meta.json')
    if not (os.path.exists(a) and os.path.exists(b)):
        continue
    ma = json.load(open(a)); mb = json.load(open(b))
    if ma.get('obsolete') or mb.get('obsolete'):
        continue
    ha = ma.get('history', []); hb = mb.get('history', [])
    new = [h for h in ha if h not in hb]
    if not new:
        continue
    mb['history'] = hb + new
    mb['checks'] = ma.get('checks', mb.get('checks'))
    json.dump(mb, open(b, 'w'), indent=1)
    n += 1
print('merged verdicts of', n, 'seeded changes from', snap)
