#!/usr/bin/env python3
"""Regenerates /verif/MANIFEST.json from vf/props.py (single source of truth for the job table)."""
import json, os, sys
V = os.path.dirname(os.path.dirname(os.path.dirname(os.path.abspath(__file__))))
sys.path.insert(0, os.path.join(V, 'vf'))
from props import PROPS
ALL = [json.loads(l)['id'] for l in open(os.path.join(V, 'properties.jsonl'))]
hooks_commits = [l.strip() for l in open(os.path.join(V, 'vf/hook_commits.txt')) if l.strip()]
checks = []
for pid in ALL:
    if pid not in PROPS:
        continue
    c = PROPS[pid]
    checks.append({
        'property_id': pid,
        'quick_cmd': 'python3 vf/run.py --prop %s --tier quick' % pid,
        'thorough_cmd': 'python3 vf/run.py --prop %s --tier thorough' % pid,
        'evidence_file': '/verif/evidence/%s.json' % pid,
        'replay_cmd_template': 'python3 vf/run.py --replay {path}',
        'engine': 'vf',
        'level_claimed': {'category': 'exploration', 'text': c['level_text'] + (' ' + c['level_addendum'] if c.get('level_addendum') else ''), 'design_ref': c.get('design_ref', 'DESIGN.md section 4, ' + pid)},
        'level_note': c['level_note'],
        'technique': c['technique'],
    })
na = [{'property_id': p, 'reason': 'check not built yet in this session (runtime monitoring applies; see DESIGN.md section 4)'} for p in ALL if p not in PROPS]
m = {
    'version': 1,
    'setup_cmd': 'python3 vf/run.py --build-all --tier quick',
    'hooks': {
        'guard': 'COCLS_VERIF',
        'enable': 'harness binaries are compiled from /repo/src/cocls/*.h (header-only) with -DCOCLS_VERIF; src/cocls/verif_hooks.h defines the hook macros',
        'baseline_off_cmd': 'cmake -G Ninja -B /repo/_build -S /repo >/dev/null && cmake --build /repo/_build && ctest --test-dir /repo/_build -j8 --timeout 900',
        'source_commits': hooks_commits,
        'add_only': True,
    },
    'engines': [{'name': 'vf', 'path': 'vf/run.py', 'serves_properties': [c['property_id'] for c in checks],
                 'kind_free_text': 'runtime monitoring: generated/stress workloads on the real headers under ASan+UBSan, TSan and plain builds; '
                                   'pinned thread team with PCT-style stall plans at guarded hook sites; boundary-recorded histories checked by reference-model oracles'}],
    'checks': checks,
    'notes': 'All checks share vf/run.py; VERIF_SEED seeds every PRNG; known_findings.json lists open/fixed genuine defects. See DESIGN.md.',
    'not_applicable': na,
}
json.dump(m, open(os.path.join(V, 'MANIFEST.json'), 'w'), indent=1)
print('MANIFEST.json:', len(checks), 'checks,', len(na), 'not claimed')
