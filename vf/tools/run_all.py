#!/usr/bin/env python3
"""Runs every registered check (quick by default) sequentially and prints a summary table."""
import json, subprocess, sys, time, os
V = os.path.dirname(os.path.dirname(os.path.dirname(os.path.abspath(__file__))))
tier = sys.argv[1] if len(sys.argv) > 1 else 'quick'
seed = sys.argv[2] if len(sys.argv) > 2 else None
m = json.load(open(os.path.join(V, 'MANIFEST.json')))
bad = 0
for c in m['checks']:
    cmd = c['quick_cmd'] if tier == 'quick' else c['thorough_cmd']
    t0 = time.time()
    env = dict(os.environ)
    if seed: env['VERIF_SEED'] = seed
    p = subprocess.run(cmd, shell=True, cwd=V, capture_output=True, text=True, env=env)
    last = p.stdout.strip().split('\n')[-1] if p.stdout.strip() else ''
    flag = '' if p.returncode == 0 else '   <<<<<< rc=%d' % p.returncode
    if p.returncode != 0: bad += 1
    print('%-4s %6.1fs rc=%d %s%s' % (c['property_id'], time.time() - t0, p.returncode, last[:150], flag), flush=True)
    if p.returncode != 0: print(p.stdout[-1500:])
sys.exit(1 if bad else 0)
