#!/usr/bin/env python3
"""annotate_seed.py <seed id prefix> <needs_to_manifest> [strengthening]   - fills the descriptive fields of seeded/<id>/meta.json"""
import json, os, sys
V = os.path.dirname(os.path.dirname(os.path.dirname(os.path.abspath(__file__))))
d = [x for x in sorted(os.listdir(os.path.join(V, 'seeded'))) if x.startswith(sys.argv[1])]
assert len(d) == 1, d
p = os.path.join(V, 'seeded', d[0], 'meta.json')
m = json.load(open(p))
m['breaks_property'] = m['property']
m['needs_to_manifest'] = sys.argv[2]
m.setdefault('written_by', 'independent sub-agent that saw only the property text (later rounds: plus one sentence per earlier change so that it does something different) and its own scratch worktree of /repo (nothing from /verif)')
if len(sys.argv) > 3:
    m['strengthening'] = sys.argv[3]
json.dump(m, open(p, 'w'), indent=1)
print('annotated', d[0])
