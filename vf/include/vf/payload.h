// vf/payload.h - instance counted, checksummed payload types and test exceptions
#pragma once
#include "core.h"
#include <exception>

namespace vf {

struct test_exc {
    int code;
};
inline std::exception_ptr make_exc(int code) { return std::make_exception_ptr(test_exc{code}); }
// returns code of a test_exc, -1 for await_canceled-like/other (caller distinguishes), via rethrow
template <typename CanceledExc> int classify_exc(std::exception_ptr e, bool &canceled) {
    canceled = false;
    try { std::rethrow_exception(e); }
    catch (const test_exc &t) { return t.code; }
    catch (const CanceledExc &) { canceled = true; return -1; }
    catch (...) { return -2; }
}

// Multi-word value with checksum and liveness cookie. A reader that sees a torn, half constructed,
// destroyed or moved-from instance fails ok().
struct tracked {
    static inline std::atomic<long> live{0};
    static inline std::atomic<long> ctor{0};
    static inline std::atomic<long> dtor{0};
    static inline std::atomic<long> bad{0}; // destroyed twice / destroyed while not alive
    static constexpr uint32_t ALIVE = 0xA11CE5ED, DEAD = 0xDEADDEAD;
    static constexpr uint64_t MOVED = ~0ull;
    uint64_t id;
    uint64_t w[6];
    uint32_t cookie;
    void fill() { for (int i = 0; i < 6; i++) w[i] = mix(id, (uint64_t)i); }
    tracked(uint64_t i) : id(i), cookie(ALIVE) { fill(); live.fetch_add(1, std::memory_order_relaxed); ctor.fetch_add(1, std::memory_order_relaxed); }
    tracked(int i) : tracked((uint64_t)i) {}
    tracked(const tracked &o) : id(o.id), cookie(ALIVE) {
        if (!o.ok()) bad.fetch_add(1, std::memory_order_relaxed);
        fill(); live.fetch_add(1, std::memory_order_relaxed); ctor.fetch_add(1, std::memory_order_relaxed);
    }
    tracked(tracked &&o) noexcept : id(o.id), cookie(ALIVE) {
        if (!o.ok()) bad.fetch_add(1, std::memory_order_relaxed);
        fill(); o.id = MOVED; o.fill();
        live.fetch_add(1, std::memory_order_relaxed); ctor.fetch_add(1, std::memory_order_relaxed);
    }
    tracked &operator=(const tracked &o) { if (!o.ok() || cookie != ALIVE) bad.fetch_add(1, std::memory_order_relaxed); id = o.id; fill(); return *this; }
    tracked &operator=(tracked &&o) noexcept { if (!o.ok() || cookie != ALIVE) bad.fetch_add(1, std::memory_order_relaxed); id = o.id; fill(); o.id = MOVED; o.fill(); return *this; }
    ~tracked() {
        if (cookie != ALIVE) bad.fetch_add(1, std::memory_order_relaxed);
        cookie = DEAD;
        live.fetch_sub(1, std::memory_order_relaxed); dtor.fetch_add(1, std::memory_order_relaxed);
    }
    bool ok() const {
        if (cookie != ALIVE) return false;
        for (int i = 0; i < 6; i++) if (w[i] != mix(id, (uint64_t)i)) return false;
        return true;
    }
    bool moved() const { return id == MOVED; }
    static void reset() { live = 0; ctor = 0; dtor = 0; bad = 0; }
};

// move-only variant
struct tracked_mo : tracked {
    using tracked::tracked;
    tracked_mo(const tracked_mo &) = delete;
    tracked_mo(tracked_mo &&) noexcept = default;
    tracked_mo &operator=(const tracked_mo &) = delete;
    tracked_mo &operator=(tracked_mo &&) noexcept = default;
};


// a value whose construction from the caller's arguments fails: emplace-style APIs (promise(args...), queue::push(args...)) construct
// the stored value in place from a 'bomb' and the constructor throws test_exc{code}
struct bomb { int code; };
struct tracked_thr : tracked {
    using tracked::tracked;
    tracked_thr(bomb b) : tracked((uint64_t)0) { throw test_exc{b.code}; } // the base sub-object is destroyed again by the unwinding
};

} // namespace vf
