// vf/team.h - pinned thread team, spin barriers, stall planner (hook handler), watchdog
#pragma once
#include "core.h"
#include <cocls/common.h> // brings verif_hooks.h (requires -DCOCLS_VERIF)
#include <thread>
#include <functional>
#include <dirent.h>
#include <fcntl.h>
#include <sched.h>
#include <sys/file.h>
#include <sys/syscall.h>
#include <sys/stat.h>
#include <pthread.h>

#ifndef COCLS_VERIF
#error "the harness must be compiled with -DCOCLS_VERIF"
#endif

namespace vf {

constexpr int MAX_SLOTS = 48;
constexpr int MAX_TEAM = 8;
constexpr int NSITES = cocls::verif::site_count;
constexpr int EVLOG = 128;

// Relaxed-atomic cell: plain loads/stores for the hardware, but not a data race for TSan and, being
// relaxed and never a read-modify-write, it creates no happens-before edge between the threads under test.

struct stall_entry {
    rlx<int> site = -1;
    rlx<int> nth = 0;     // fire at the nth hit of the site in this round (1-based)
    rlx<int> seen = 0;
    rlx<int> ticks = 0;   // wait until the other threads made this many hook calls
    rlx<int> fired = 0;
    stall_entry() = default;
    stall_entry(int s, int n, int se, int t, int f) : site(s), nth(n), seen(se), ticks(t), fired(f) {}
};

struct alignas(128) slot {
    std::atomic<uint64_t> tick{0};
    std::atomic<int> at_barrier{0};
    std::atomic<int> done{0};
    std::atomic<int> last_site{-1};
    std::atomic<int> used{0};
    rlx<int> tid = -1;       // team index, or -1 for auxiliary (library created) threads
    rlx<int> aux_index = -1; // order of arrival of auxiliary threads within a round
    rlx<pid_t> ktid = 0;
    rlx<uint64_t> hits[NSITES];
    rlx<uint64_t> stalls_fired = 0;
    rlx<uint16_t> ev[EVLOG];
    rlx<int> nev = 0;
    stall_entry plan[4];
    rlx<int> nplan = 0;
    rlx<uint64_t> noise = 0x12345;
};

struct team_state {
    slot slots[MAX_SLOTS];
    int nteam = 0;
    std::atomic<int> aux_counter{0};
    stall_entry aux_plan[4][4]; // plan for the k-th auxiliary thread of the round
    rlx<int> aux_nplan[4];
    bool yieldy = false;        // unpinned mode: yield instead of spin
    uint64_t stall_cap_cycles = 120000;
    int noise_mask = 0;         // 0 = no random yields
    std::atomic<uint64_t> progress{0};
    std::atomic<int> watchdog_stop{0};
    std::atomic<int> expect_blocked{0}; // scenario declares legitimately long blocking (disables hang verdict)
};
inline team_state g_team;
inline thread_local slot *tl_slot = nullptr;

inline pid_t gettid_() { return (pid_t)syscall(SYS_gettid); }

// The slot of an auxiliary (library-created) thread is released when the thread exits. A pthread key is used instead of a C++
// thread_local object with a destructor: gcc initialises all dynamically initialised thread-locals of a translation unit together,
// so touching such an object in the hook handler would construct the LIBRARY's thread-local ready queue (two allocations) on every
// new thread as a side effect of the harness.
inline pthread_key_t aux_key() {
    static pthread_key_t k = [] { pthread_key_t kk; pthread_key_create(&kk, [](void *p) { if (p) static_cast<slot *>(p)->used.store(0, std::memory_order_relaxed); }); return kk; }();
    return k;
}

inline slot *acquire_aux_slot() {
    for (int i = MAX_TEAM; i < MAX_SLOTS; i++) {
        int e = 0;
        if (g_team.slots[i].used.load(std::memory_order_relaxed) == 0 &&
            g_team.slots[i].used.compare_exchange_strong(e, 1, std::memory_order_relaxed)) {
            slot *s = &g_team.slots[i];
            s->tid = -1;
            s->ktid = gettid_();
            s->nev = 0;
            s->done.store(0, std::memory_order_relaxed);
            s->at_barrier.store(0, std::memory_order_relaxed);
            int k = g_team.aux_counter.fetch_add(1, std::memory_order_relaxed);
            s->aux_index = k;
            s->nplan = 0;
            if (k < 4) {
                s->nplan = (int)g_team.aux_nplan[k];
                for (int j = 0, n = s->nplan; j < n; j++) { s->plan[j] = g_team.aux_plan[k][j]; s->plan[j].seen = 0; s->plan[j].fired = 0; }
            }
            tl_slot = s;
            pthread_setspecific(aux_key(), s);
            return s;
        }
    }
    return nullptr;
}

inline uint64_t others_ticks(const slot *me) {
    uint64_t sum = 0;
    for (int i = 0; i < MAX_SLOTS; i++) {
        const slot &o = g_team.slots[i];
        if (&o != me) sum += o.tick.load(std::memory_order_relaxed);
    }
    return sum;
}
// hook calls at one site summed over all threads (relaxed; monitor use only)
inline uint64_t total_site_hits(int site) {
    uint64_t sum = 0;
    for (int i = 0; i < MAX_SLOTS; i++) sum += (uint64_t)g_team.slots[i].hits[site];
    return sum;
}
inline bool others_all_idle(const slot *me) {
    for (int i = 0; i < g_team.nteam; i++) {
        const slot &o = g_team.slots[i];
        if (&o == me) continue;
        if (!o.done.load(std::memory_order_relaxed) && !o.at_barrier.load(std::memory_order_relaxed)) return false;
    }
    return true;
}

inline void do_stall(slot *s, stall_entry &st) noexcept {
    st.fired = 1;
    s->stalls_fired++;
    const uint64_t want_ticks = (uint64_t)(int)st.ticks;
    uint64_t base = others_ticks(s);
    uint64_t t0 = rdtsc();
    unsigned n = 0;
    for (;;) {
        if (g_team.yieldy) sched_yield(); else cpu_relax();
        if ((++n & 15) == 0 || g_team.yieldy) {
            if (others_ticks(s) - base >= want_ticks) break;
            if (rdtsc() - t0 > g_team.stall_cap_cycles) break;
            // nobody else can make progress: stop waiting (aux threads are not considered, cap handles them)
            if (g_team.aux_counter.load(std::memory_order_relaxed) == 0 && others_all_idle(s)) break;
        }
    }
}

inline void hook_handler(int site, const void *, long, bool stallable) noexcept {
    slot *s = tl_slot;
    if (!s) { s = acquire_aux_slot(); if (!s) return; }
    s->hits[site]++;
    s->last_site.store(site, std::memory_order_relaxed);
    s->tick.store(s->tick.load(std::memory_order_relaxed) + 1, std::memory_order_relaxed);
    if (!stallable) {
        int ne = s->nev;
        if (ne < EVLOG) { s->ev[ne] = (uint16_t)site; s->nev = ne + 1; }
        return;
    }
    for (int i = 0, n = s->nplan; i < n; i++) {
        stall_entry &e = s->plan[i];
        if ((int)e.site == site && ++e.seen == (int)e.nth) do_stall(s, e);
    }
    if (g_team.noise_mask) {
        uint64_t nz = s->noise; nz ^= nz << 13; nz ^= nz >> 7; nz ^= nz << 17; s->noise = nz;
        if ((nz & (uint64_t)g_team.noise_mask) == 0) sched_yield();
    }
}

// ---------------------------------------------------------------- barrier
struct spin_barrier {
    alignas(128) std::atomic<int> count{0};
    alignas(128) std::atomic<int> gen{0};
    int n = 1;
    void wait(slot *s) {
        int g = gen.load(std::memory_order_acquire);
        if (count.fetch_add(1, std::memory_order_acq_rel) + 1 == n) {
            count.store(0, std::memory_order_relaxed);
            gen.store(g + 1, std::memory_order_release);
        } else {
            if (s) s->at_barrier.store(1, std::memory_order_relaxed);
            unsigned spins = 0;
            while (gen.load(std::memory_order_acquire) == g) {
                if (g_team.yieldy || ++spins > 4000) { sched_yield(); }
                else cpu_relax();
            }
            if (s) s->at_barrier.store(0, std::memory_order_relaxed);
        }
    }
};

// ---------------------------------------------------------------- cpu reservation
inline cpu_set_t original_affinity() { // affinity of the process before any team pinned the main thread
    static cpu_set_t saved;
    static bool have = false;
    if (!have) { CPU_ZERO(&saved); sched_getaffinity(0, sizeof saved, &saved); have = true; }
    return saved;
}
struct cpu_reservation {
    std::vector<int> cpus;
    std::vector<int> fds;
    bool reserve(int n, const std::string &dir, uint64_t seed) {
        if (dir.empty()) return false;
        mkdir(dir.c_str(), 0777);
        cpu_set_t avail = original_affinity();
        std::vector<int> cand;
        for (int c = 0; c < CPU_SETSIZE; c++) if (CPU_ISSET(c, &avail)) cand.push_back(c);
        rng r(seed ^ 0xC0FFEE);
        for (size_t i = cand.size(); i > 1; i--) std::swap(cand[i - 1], cand[r.below((uint32_t)i)]);
        for (int c : cand) {
            if ((int)cpus.size() >= n) break;
            std::string p = dir + "/cpu" + std::to_string(c);
            int fd = open(p.c_str(), O_CREAT | O_RDWR, 0666);
            if (fd < 0) continue;
            if (flock(fd, LOCK_EX | LOCK_NB) == 0) { cpus.push_back(c); fds.push_back(fd); }
            else close(fd);
        }
        if ((int)cpus.size() < n) { release(); return false; }
        return true;
    }
    void release() {
        for (int fd : fds) { flock(fd, LOCK_UN); close(fd); }
        fds.clear(); cpus.clear();
    }
    ~cpu_reservation() { release(); }
};
inline void pin_to(int cpu) {
    cpu_set_t s; CPU_ZERO(&s); CPU_SET(cpu, &s);
    pthread_setaffinity_np(pthread_self(), sizeof s, &s);
}

// ---------------------------------------------------------------- watchdog
#if defined(__SANITIZE_THREAD__)
#define VF_UNDER_TSAN 1
#elif defined(__has_feature)
#if __has_feature(thread_sanitizer)
#define VF_UNDER_TSAN 1
#endif
#endif
#ifndef VF_UNDER_TSAN
#define VF_UNDER_TSAN 0
#endif
inline bool read_task_state(pid_t tid, char &state) {
    char path[64]; snprintf(path, sizeof path, "/proc/self/task/%d/stat", (int)tid);
    FILE *f = fopen(path, "r");
    if (!f) return false;
    char buf[512]; size_t n = fread(buf, 1, sizeof buf - 1, f); fclose(f);
    buf[n] = 0;
    char *p = strrchr(buf, ')');
    if (!p || !p[1] || !p[2]) return false;
    state = p[2];
    return true;
}
// all threads of the process (except 'self') are blocked in the kernel or parked at a harness barrier
inline bool process_quiescent(pid_t self, std::string &desc) {
    DIR *d = opendir("/proc/self/task");
    if (!d) return false;
    bool ok = true, any_blocked = false;
    desc.clear();
    while (auto *e = readdir(d)) {
        if (e->d_name[0] == '.') continue;
        pid_t t = (pid_t)atoi(e->d_name);
        if (t == self) continue;
        bool at_barrier = false; int tid = -2; int last = -1;
        for (int i = 0; i < MAX_SLOTS; i++) {
            slot &s = g_team.slots[i];
            if ((pid_t)s.ktid == t && (i < g_team.nteam || s.used.load(std::memory_order_relaxed))) {
                at_barrier = s.at_barrier.load(std::memory_order_relaxed) != 0;
                tid = (int)s.tid; last = s.last_site.load(std::memory_order_relaxed);
            }
        }
        char st = '?';
        if (!read_task_state(t, st)) continue; // thread vanished
        if (at_barrier) { continue; }
        char b[160];
        snprintf(b, sizeof b, "[thread team=%d state=%c last_site=%s]", tid, st, last >= 0 ? cocls::verif::site_names[last] : "-");
        desc += b;
        // Only a thread the harness KNOWS (team member, coordinator, or a library thread that has passed a hook) counts as "blocked": a
        // process whose team threads are ALL parked at the barrier is in a transient state by construction (the barrier is about to open),
        // and the sleeping background threads of the sanitizer runtime would otherwise turn a starved barrier into a "hang".
        if (st == 'S' || st == 'D') { if (tid != -2) any_blocked = true; }
        else ok = false;
    }
    closedir(d);
    return ok && any_blocked;
}

inline void watchdog_main() {
    pid_t self = gettid_();
    auto progress_now = [] { report *r = g_active_report.load(std::memory_order_relaxed); return g_team.progress.load(std::memory_order_relaxed) + (r ? (uint64_t)r->cases : 0); };
    uint64_t last = progress_now();
    int still = 0, quiet = 0;
    while (!g_team.watchdog_stop.load(std::memory_order_relaxed)) {
        usleep(50 * 1000);
        uint64_t cur = progress_now(); // team rounds and finished cases of single-thread scenarios
        if (cur != last || g_team.expect_blocked.load(std::memory_order_relaxed)) { last = cur; still = 0; quiet = 0; continue; }
        still++;
        std::string desc;
        if (process_quiescent(self, desc)) quiet++;
        const char *kind = nullptr;
        // Hang: no progress for 5 s while (almost) every sample found every thread asleep or parked at a barrier. 90 % instead of 100 %
        // because harness threads that POLL with short sleeps are caught running now and then; a working program is never 90 % asleep
        // without finishing a case. Under ThreadSanitizer 15 s: while the runtime prints a report (symbolising through an external
        // process) every thread sleeps on the report lock for seconds - that is not a hang of the program.
        const int window = VF_UNDER_TSAN ? 300 : 100;
        if (still >= window && quiet * 10 >= still * 9) kind = "hang";
        else if (still >= 20 * 240) kind = "livelock"; // 4 minutes without a single finished case
        if (kind) {
            report *r = g_active_report.load(std::memory_order_relaxed);
            std::string site = "-";
            size_t p = desc.find("last_site=");
            if (p != std::string::npos) { size_t e = desc.find(']', p); site = desc.substr(p + 10, e - p - 10); }
            fprintf(stderr, "VF-HANG kind=%s %s ctx=%s\n", kind, desc.c_str(), g_crash.buf);
            fflush(stderr);
            if (DIR *d = opendir("/proc/self/task")) { // stack of every other thread (diagnostics only)
                while (auto *e = readdir(d)) { pid_t t = (pid_t)atoi(e->d_name); if (e->d_name[0] != '.' && t != self) syscall(SYS_tgkill, getpid(), t, SIGUSR2); }
                closedir(d);
                usleep(300 * 1000);
            }
            if (r) {
                r->violation(std::string(kind) + "|" + site, std::string("no progress; ") + desc,
                             jobj().raw("ctx", g_crash.buf).kv("threads", desc).str());
                r->write();
            }
            fflush(stderr);
            _exit(r ? 0 : 3);
        }
    }
}

// ---------------------------------------------------------------- team
class team {
public:
    int n;
    bool pinned = false;
    team(int nthreads, const opts &o, bool want_watchdog = true) : n(nthreads) {
        if (n > MAX_TEAM) n = MAX_TEAM;
        g_team.nteam = n;
        for (int i = 0; i < MAX_SLOTS; i++) { for (int k = 0; k < NSITES; k++) g_team.slots[i].hits[k] = 0; g_team.slots[i].stalls_fired = 0; }
        if (cocls::verif::hook_handler != &hook_handler) cocls::verif::hook_handler = &hook_handler; // installed once, never removed (detached library threads may still call it)
        (void)original_affinity();
        pinned = n > 1 && res.reserve(n, o.cpudir, o.seed);
        g_team.yieldy = !pinned && n > 1;
        stall_enabled = o.stall != 0;
        start_b.n = n; end_b.n = n;
        for (int i = 0; i < n; i++) { g_team.slots[i].tid = i; g_team.slots[i].used.store(1); }
        g_team.slots[0].ktid = gettid_();
        tl_slot = &g_team.slots[0];
        if (pinned) pin_to(res.cpus[0]);
        for (int i = 1; i < n; i++) {
            pthread_attr_t a; pthread_attr_init(&a); pthread_attr_setstacksize(&a, 64ul << 20);
            pthread_t t;
            auto *arg = new std::pair<team *, int>(this, i);
            pthread_create(&t, &a, &team::thread_main, arg);
            pthread_attr_destroy(&a);
            threads.push_back(t);
        }
        if (want_watchdog) { g_team.watchdog_stop.store(0); wd = std::thread(watchdog_main); has_wd = true; }
    }
    ~team() {
        quit = true;
        if (n > 1) start_b.wait(tl_slot);
        for (auto t : threads) pthread_join(t, nullptr);
        if (has_wd) { g_team.watchdog_stop.store(1); wd.join(); }
        if (pinned) { cpu_set_t o = original_affinity(); pthread_setaffinity_np(pthread_self(), sizeof o, &o); }
    }
    // prepares the stall plan of the coming round. sites: candidate sites. Returns textual description.
    std::string plan(rng &r, const int *sites, int nsites, int max_entries = 3) {
        return plan_by([&](int) { return std::make_pair(sites, nsites); }, r, n, max_entries);
    }
    // chooser(tid) -> (sites, count) relevant for the role of that thread (tid == -1: auxiliary library threads)
    template <typename Chooser>
    std::string plan_by(Chooser &&chooser, rng &r, int nactive, int max_entries = 3) {
        std::string d;
        for (int i = 0; i < MAX_SLOTS; i++) { g_team.slots[i].nplan = 0; }
        for (int k = 0; k < 4; k++) g_team.aux_nplan[k] = 0;
        if (!stall_enabled) return d;
        static const int wts[8] = {0, 1, 1, 1, 2, 2, 2, 3};
        int cnt = std::min(max_entries, wts[r.below(8)]);
        if (nactive > n) nactive = n;
        for (int k = 0; k < cnt; k++) {
            int who = (int)r.below((uint32_t)(nactive + (aux_targets ? 1 : 0)));
            auto ss = chooser(who < nactive ? who : -1);
            if (!ss.first || ss.second <= 0) continue;
            stall_entry e;
            e.site = ss.first[r.below((uint32_t)ss.second)];
            e.nth = r.chance(2, 3) ? 1 : 2 + (int)r.below(r.chance(1, 4) ? 6 : 2);
            e.ticks = 1 + (int)r.below(r.chance(1, 4) ? 60 : 12);
            if (who < nactive) {
                slot &s = g_team.slots[who];
                if (s.nplan < 4) { int np = s.nplan; s.plan[np] = e; s.nplan = np + 1; }
                d += "t" + std::to_string(who);
            } else {
                int ak = (int)r.below(2);
                if (g_team.aux_nplan[ak] < 4) { int np = g_team.aux_nplan[ak]; g_team.aux_plan[ak][np] = e; g_team.aux_nplan[ak] = np + 1; }
                d += "a" + std::to_string(ak);
            }
            d += std::string("@") + cocls::verif::site_names[(int)e.site] + "#" + std::to_string((int)e.nth) + "+" + std::to_string((int)e.ticks) + " ";
        }
        return d;
    }
    // runs role(tid) on every member (the caller is member 0); returns after all finished
    template <typename F> void round(F &&role) {
        for (int i = 0; i < MAX_SLOTS; i++) {
            slot &s = g_team.slots[i];
            s.nev = 0; s.done.store(0, std::memory_order_relaxed);
            for (int j = 0, n = s.nplan; j < n; j++) { s.plan[j].seen = 0; s.plan[j].fired = 0; }
        }
        g_team.aux_counter.store(0, std::memory_order_relaxed);
        std::function<void(int)> f = std::ref(role);
        cur = &f;
        if (n > 1) start_b.wait(tl_slot);
        role(0);
        g_team.slots[0].done.store(1, std::memory_order_relaxed);
        if (n > 1) end_b.wait(tl_slot);
        cur = nullptr;
        g_team.progress.store(g_team.progress.load(std::memory_order_relaxed) + 1, std::memory_order_relaxed);
    }
    // events logged during the last round by member tid (EVENT hooks only)
    std::vector<int> events(int tid) const {
        const slot &s = g_team.slots[tid];
        std::vector<int> out;
        for (int j = 0, n = s.nev; j < n; j++) out.push_back((int)(uint16_t)s.ev[j]);
        return out;
    }
    // count of a given event over all slots in the last round
    int count_event(int site) const {
        int c = 0;
        for (int i = 0; i < MAX_SLOTS; i++) { const slot &s = g_team.slots[i]; for (int j = 0, n = s.nev; j < n; j++) if ((int)(uint16_t)s.ev[j] == site) c++; }
        return c;
    }
    int stalls_fired_last_round() const {
        int c = 0;
        for (int i = 0; i < MAX_SLOTS; i++) { const slot &s = g_team.slots[i]; for (int j = 0, n = s.nplan; j < n; j++) c += (int)s.plan[j].fired; }
        return c;
    }
    void export_hits(report &R) const {
        uint64_t st = 0;
        for (int i = 0; i < MAX_SLOTS; i++) {
            const slot &s = g_team.slots[i];
            st += (uint64_t)s.stalls_fired;
            for (int k = 0; k < NSITES; k++) if ((uint64_t)s.hits[k]) R.site_hits[cocls::verif::site_names[k]] += (uint64_t)s.hits[k];
        }
        R.extra["stalls_fired"] = std::to_string(st);
        R.pinned = pinned;
    }
    void set_aux_targets(bool b) { aux_targets = b; }
    void progress() { g_team.progress.store(g_team.progress.load(std::memory_order_relaxed) + 1, std::memory_order_relaxed); }

private:
    static void *thread_main(void *p) {
        auto *arg = static_cast<std::pair<team *, int> *>(p);
        team *t = arg->first; int id = arg->second;
        delete arg;
        slot *s = &g_team.slots[id];
        s->ktid = gettid_();
        tl_slot = s;
        if (t->pinned) pin_to(t->res.cpus[id]);
        for (;;) {
            t->start_b.wait(s);
            if (t->quit) break;
            (*t->cur)(id);
            s->done.store(1, std::memory_order_relaxed);
            t->end_b.wait(s);
        }
        return nullptr;
    }
    cpu_reservation res;
    spin_barrier start_b, end_b;
    std::vector<pthread_t> threads;
    std::function<void(int)> *cur = nullptr;
    bool quit = false;
    bool stall_enabled = true;
    bool aux_targets = false;
    std::thread wd;
    bool has_wd = false;
};

// random start offset: slides the roles against each other (0..~1.5us, sometimes up to ~15us)
inline void start_offset(uint64_t seed, int tid) {
    uint64_t h = mix(seed, (uint64_t)tid * 7919 + 17);
    if (h % 3 == 0) return;
    uint64_t cyc = (h >> 8) % 4000;
    if ((h >> 40) % 8 == 0) cyc = (h >> 8) % 40000;
    uint64_t t0 = rdtsc();
    while (rdtsc() - t0 < cyc) cpu_relax();
}

} // namespace vf
