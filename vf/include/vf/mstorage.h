// vf/mstorage.h - monitoring storages for coroutine frames / helper objects (Storage concept of cocls)
#pragma once
#include "core.h"
#include <cstdlib>
#include <cstring>
#include <vector>
#include <mutex>

namespace vf {

// error bits collected process wide (static dealloc has no instance)
enum : unsigned { MS_DOUBLE_FREE = 1, MS_SIZE_MISMATCH = 2, MS_OVERLAP = 4, MS_FOREIGN = 8, MS_CANARY = 16, MS_TOO_SMALL = 32 };
inline std::atomic<unsigned> g_ms_errors{0};

// Reusable single-block storage (like cocls::reusable_storage) that checks pairing of alloc/dealloc, equal sizes, no second
// allocation while the block is live, and counts how often it had to (re)allocate its block from the heap.
struct mon_storage {
    static constexpr size_t HDR = 32;
    static constexpr uint64_t LIVE = 0x11FE11FE11FE11FEull, DEAD = 0xDEADDEADDEADDEADull;
    struct hdr { mon_storage *owner; size_t size; uint64_t cookie; uint64_t pad; };
    char *buf = nullptr; size_t cap = 0;
    std::atomic<int> busy{0};
    std::atomic<long> allocs{0}, deallocs{0}, heap_allocs{0};
    mon_storage() = default;
    mon_storage(const mon_storage &) = delete;
    ~mon_storage() { free(buf); }
    void *alloc(size_t sz) {
        allocs.fetch_add(1, std::memory_order_relaxed);
        if (busy.exchange(1, std::memory_order_relaxed)) g_ms_errors.fetch_or(MS_OVERLAP, std::memory_order_relaxed);
        size_t need = sz + HDR + 8;
        if (need > cap) { free(buf); buf = (char *)malloc(need); cap = need; heap_allocs.fetch_add(1, std::memory_order_relaxed); }
        hdr *h = (hdr *)buf; h->owner = this; h->size = sz; h->cookie = LIVE;
        memset(buf + HDR + sz, 0xC5, 8); // canary behind the block
        return buf + HDR;
    }
    static void dealloc(void *p, size_t sz) {
        hdr *h = (hdr *)((char *)p - HDR);
        if (h->cookie != LIVE) { g_ms_errors.fetch_or(h->cookie == DEAD ? MS_DOUBLE_FREE : MS_FOREIGN, std::memory_order_relaxed); return; }
        if (h->size != sz) g_ms_errors.fetch_or(MS_SIZE_MISMATCH, std::memory_order_relaxed);
        for (int i = 0; i < 8; i++) if ((unsigned char)((char *)p)[h->size + (size_t)i] != 0xC5) g_ms_errors.fetch_or(MS_CANARY, std::memory_order_relaxed);
        h->cookie = DEAD;
        mon_storage *o = h->owner;
        o->deallocs.fetch_add(1, std::memory_order_relaxed);
        o->busy.store(0, std::memory_order_relaxed);
    }
    bool balanced() const { return allocs.load() == deallocs.load() && !busy.load(); }
};

inline std::string ms_errors_str(unsigned e) {
    std::string s;
    if (e & MS_DOUBLE_FREE) s += "block released twice; ";
    if (e & MS_SIZE_MISMATCH) s += "dealloc size differs from alloc size; ";
    if (e & MS_OVERLAP) s += "second allocation while the block was live; ";
    if (e & MS_FOREIGN) s += "dealloc of a block that was never handed out; ";
    if (e & MS_CANARY) s += "write beyond the requested size; ";
    if (e & MS_TOO_SMALL) s += "block smaller than requested; ";
    return s;
}

} // namespace vf
