// vf/core.h - core of the verification harness: PRNG, JSON output, report, options
#pragma once
#include <atomic>
#include <cstdint>
#include <cstdio>
#include <cstdlib>
#include <cstring>
#include <map>
#include <set>
#include <string>
#include <execinfo.h>
#include <sys/syscall.h>
#include <vector>
#include <sstream>
#include <csignal>
#include <unistd.h>
#include <sys/resource.h>

namespace vf {

// ---------------------------------------------------------------- rng
inline uint64_t splitmix(uint64_t &x) {
    uint64_t z = (x += 0x9E3779B97F4A7C15ull);
    z = (z ^ (z >> 30)) * 0xBF58476D1CE4E5B9ull;
    z = (z ^ (z >> 27)) * 0x94D049BB133111EBull;
    return z ^ (z >> 31);
}
inline uint64_t mix(uint64_t a, uint64_t b) {
    uint64_t x = a * 0x9E3779B97F4A7C15ull + b + 0x7F4A7C15ull;
    return splitmix(x);
}
struct rng {
    uint64_t s;
    explicit rng(uint64_t seed = 1) : s(seed) { next(); }
    uint64_t next() { return splitmix(s); }
    // uniform in [0,n)
    uint32_t below(uint32_t n) { return n ? (uint32_t)((next() >> 11) % n) : 0; }
    int range(int lo, int hi) { return lo + (int)below((uint32_t)(hi - lo + 1)); }
    bool chance(uint32_t num, uint32_t den) { return below(den) < num; }
    template <typename T, size_t N> T pick(const T (&a)[N]) { return a[below(N)]; }
};

// ---------------------------------------------------------------- json helpers
inline std::string jstr(const std::string &s) {
    std::string o = "\"";
    for (unsigned char c : s) {
        switch (c) {
        case '"': o += "\\\""; break;
        case '\\': o += "\\\\"; break;
        case '\n': o += "\\n"; break;
        case '\t': o += "\\t"; break;
        case '\r': o += "\\r"; break;
        default:
            if (c < 0x20) { char b[8]; snprintf(b, sizeof b, "\\u%04x", c); o += b; }
            else o += (char)c;
        }
    }
    return o + "\"";
}
// tiny object builder: jobj().kv("a",1).kv("b","x").str()
struct jobj {
    std::string s = "{";
    bool first = true;
    jobj &raw(const std::string &k, const std::string &v) {
        if (!first) s += ",";
        first = false;
        s += jstr(k) + ":" + v;
        return *this;
    }
    jobj &kv(const std::string &k, const std::string &v) { return raw(k, jstr(v)); }
    jobj &kv(const std::string &k, const char *v) { return raw(k, jstr(v)); }
    jobj &kv(const std::string &k, long long v) { return raw(k, std::to_string(v)); }
    jobj &kv(const std::string &k, unsigned long long v) { return raw(k, std::to_string(v)); }
    jobj &kv(const std::string &k, long v) { return raw(k, std::to_string(v)); }
    jobj &kv(const std::string &k, unsigned long v) { return raw(k, std::to_string(v)); }
    jobj &kv(const std::string &k, int v) { return raw(k, std::to_string(v)); }
    jobj &kv(const std::string &k, unsigned v) { return raw(k, std::to_string(v)); }
    jobj &kv(const std::string &k, bool v) { return raw(k, v ? "true" : "false"); }
    std::string str() const { return s + "}"; }
};
template <typename It> std::string jarr_raw(It b, It e) {
    std::string s = "[";
    bool f = true;
    for (; b != e; ++b) { if (!f) s += ","; f = false; s += *b; }
    return s + "]";
}
inline std::string jarr(const std::vector<std::string> &raw) { return jarr_raw(raw.begin(), raw.end()); }
template <typename T> std::string jnums(const std::vector<T> &v) {
    std::string s = "[";
    for (size_t i = 0; i < v.size(); i++) { if (i) s += ","; s += std::to_string(v[i]); }
    return s + "]";
}

// ---------------------------------------------------------------- options
struct opts {
    uint64_t seed = 1;
    uint64_t cases = 1000;
    std::string scenario = "all";
    std::string out;      // report file ("" = stdout)
    std::string cpudir;   // directory with cpu lock files ("" = no pinning)
    int threads = 4;
    int stall = 1;        // stall planner on/off
    std::map<std::string, std::string> kv;
    opts(int argc, char **argv) {
        for (int i = 1; i < argc; i++) {
            std::string a = argv[i];
            auto val = [&]() -> std::string { return (i + 1 < argc) ? argv[++i] : ""; };
            if (a == "--seed") seed = strtoull(val().c_str(), 0, 10);
            else if (a == "--cases") cases = strtoull(val().c_str(), 0, 10);
            else if (a == "--scenario") scenario = val();
            else if (a == "--out") out = val();
            else if (a == "--cpudir") cpudir = val();
            else if (a == "--threads") threads = atoi(val().c_str());
            else if (a == "--stall") stall = atoi(val().c_str());
            else if (a.rfind("--", 0) == 0) kv[a.substr(2)] = val();
        }
    }
    bool want(const char *name) const {
        if (scenario == "all") return true;
        // comma separated list
        std::string s = "," + scenario + ",";
        return s.find(std::string(",") + name + ",") != std::string::npos;
    }
    long get(const char *k, long d) const {
        auto it = kv.find(k);
        return it == kv.end() ? d : atol(it->second.c_str());
    }
};

// ---------------------------------------------------------------- crash context
// A static, async-signal-safe description of what is running right now. Printed by
// the SIGABRT/SIGSEGV handler so that run.py can attribute sanitizer aborts and
// library assertion failures to a scenario/round/seed.
struct crash_ctx {
    char buf[512];
    crash_ctx() { strcpy(buf, "{}"); }
};
inline crash_ctx g_crash;
inline void set_crash_ctx(const char *prop, const char *scenario, uint64_t seed, uint64_t round, const char *extra = "") {
    snprintf(g_crash.buf, sizeof g_crash.buf, "{\"prop\":\"%s\",\"scenario\":\"%s\",\"seed\":%llu,\"round\":%llu,\"extra\":\"%s\"}",
             prop, scenario, (unsigned long long)seed, (unsigned long long)round, extra);
}
inline void crash_handler(int sig) {
    const char *p = "\nVF-CRASH ";
    (void)!write(2, p, strlen(p));
    char b[32];
    int n = snprintf(b, sizeof b, "sig=%d ", sig);
    (void)!write(2, b, n);
    (void)!write(2, g_crash.buf, strlen(g_crash.buf));
    (void)!write(2, "\n", 1);
    signal(sig, SIG_DFL);
    raise(sig);
}
// SIGUSR2: best-effort stack dump of the receiving thread (sent by the watchdog to every thread right before it reports a hang or
// a livelock; the process exits afterwards, so async-signal-unsafety of backtrace() is accepted)
inline void stackdump_handler(int) {
    void *fr[48];
    int n = backtrace(fr, 48);
    char b[64];
    int l = snprintf(b, sizeof b, "\nVF-STACK tid=%d\n", (int)syscall(SYS_gettid));
    (void)!write(2, b, l);
    backtrace_symbols_fd(fr, n, 2);
}
inline void install_crash_handler() {
    signal(SIGABRT, crash_handler);
    signal(SIGUSR2, stackdump_handler);
#if !defined(__SANITIZE_ADDRESS__) && !defined(__SANITIZE_THREAD__)
    signal(SIGSEGV, crash_handler);
    signal(SIGBUS, crash_handler);
#endif
    struct rlimit rl;
    if (getrlimit(RLIMIT_STACK, &rl) == 0) { // bigger stacks for threads created later are set explicitly
        (void)rl;
    }
}

// relaxed atomic cell without RMW: readable by the watchdog / hook handler without adding synchronisation between harness threads
template <typename T> struct rlx {
    std::atomic<T> v{};
    rlx() = default;
    rlx(T x) : v(x) {}
    rlx(const rlx &o) : v(o.v.load(std::memory_order_relaxed)) {}
    rlx &operator=(const rlx &o) { v.store(o.v.load(std::memory_order_relaxed), std::memory_order_relaxed); return *this; }
    operator T() const { return v.load(std::memory_order_relaxed); }
    T operator=(T x) { v.store(x, std::memory_order_relaxed); return x; }
    T operator++() { T n = v.load(std::memory_order_relaxed) + 1; v.store(n, std::memory_order_relaxed); return n; }
    T operator++(int) { T o = v.load(std::memory_order_relaxed); v.store(o + 1, std::memory_order_relaxed); return o; }
    T operator+=(T d) { T n = v.load(std::memory_order_relaxed) + d; v.store(n, std::memory_order_relaxed); return n; }
};

// ---------------------------------------------------------------- report
struct report {
    std::string prop;
    std::string scenario;
    uint64_t seed = 0;
    rlx<uint64_t> cases = 0;        // cases executed (read by the watchdog as progress)
    uint64_t nontrivial_cases = 0;  // cases that were non-trivial by the scenario's rule
    std::map<std::string, uint64_t> sigs;     // distinct non-trivial signatures -> count
    std::map<std::string, uint64_t> classes;  // outcome / interleaving classes -> count
    std::map<std::string, uint64_t> site_hits;
    std::vector<std::string> samples;         // JSON values
    std::map<std::string, std::string> extra; // key -> JSON value
    struct viol { std::string key, what, witness; uint64_t count; };
    std::vector<viol> viols;
    size_t max_sigs = 400000;
    bool sig_overflow = false;
    std::string out_path;
    bool pinned = false;

    report(const std::string &p, const std::string &sc, const opts &o) : prop(p), scenario(sc), seed(o.seed), out_path(o.out) {}

    void sig(const std::string &s, bool nontrivial = true) {
        if (!nontrivial) return;
        auto it = sigs.find(s);
        if (it != sigs.end()) { it->second++; return; }
        if (sigs.size() >= max_sigs) { sig_overflow = true; return; }
        sigs[s] = 1;
    }
    void cls(const std::string &c, uint64_t n = 1) { classes[c] += n; }
    void sample(const std::string &json, size_t cap = 6) { if (samples.size() < cap) samples.push_back(json); }
    // key: "<scenario>|<kind>|<site>" ; the property id is prepended by run.py
    void violation(const std::string &kind_site, const std::string &what, const std::string &witness_json) {
        std::string key = scenario + "|" + kind_site;
        for (auto &v : viols) if (v.key == key) { v.count++; return; }
        viols.push_back({key, what, witness_json, 1});
        fprintf(stderr, "VF-VIOLATION %s %s: %s\n", prop.c_str(), key.c_str(), what.c_str());
    }
    bool failed() const { return !viols.empty(); }
    size_t nviol() const { return viols.size(); }

    std::string to_json() const {
        jobj o;
        o.kv("prop", prop).kv("scenario", scenario).kv("seed", (unsigned long long)seed);
        o.kv("cases", (unsigned long long)cases).kv("nontrivial_cases", (unsigned long long)nontrivial_cases);
        o.kv("distinct_signatures", (unsigned long long)sigs.size()).kv("sig_overflow", sig_overflow).kv("pinned", pinned);
        {
            // only emit up to 400 signatures verbatim (the count above is exact)
            jobj s; size_t n = 0;
            for (auto &kv : sigs) { if (n++ >= 400) break; s.kv(kv.first, (unsigned long long)kv.second); }
            o.raw("signatures", s.str());
        }
        { jobj s; for (auto &kv : classes) s.kv(kv.first, (unsigned long long)kv.second); o.raw("classes", s.str()); }
        { jobj s; for (auto &kv : site_hits) s.kv(kv.first, (unsigned long long)kv.second); o.raw("site_hits", s.str()); }
        o.raw("samples", jarr(samples));
        { jobj s; for (auto &kv : extra) s.raw(kv.first, kv.second); o.raw("extra", s.str()); }
        {
            std::vector<std::string> v;
            for (auto &x : viols) v.push_back(jobj().kv("key", x.key).kv("what", x.what).raw("witness", x.witness.empty() ? "null" : x.witness).kv("count", (unsigned long long)x.count).str());
            o.raw("violations", jarr(v));
        }
        return o.str();
    }
    // all hashes of signatures, so that run.py can count distinct signatures across processes exactly
    void write() const {
        std::string j = to_json();
        FILE *f = out_path.empty() ? stdout : fopen(out_path.c_str(), "a");
        if (!f) { perror("report"); f = stdout; }
        fprintf(f, "VF-REPORT %s\n", j.c_str());
        // signature hashes (64 bit FNV) in chunks
        std::string line = "VF-SIGS " + prop + "/" + scenario;
        size_t n = 0;
        for (auto &kv : sigs) {
            uint64_t h = 1469598103934665603ull;
            for (unsigned char c : kv.first) { h ^= c; h *= 1099511628211ull; }
            char b[24]; snprintf(b, sizeof b, " %016llx", (unsigned long long)h);
            line += b;
            if (++n % 2000 == 0) { fprintf(f, "%s\n", line.c_str()); line = "VF-SIGS " + prop + "/" + scenario; }
        }
        fprintf(f, "%s\n", line.c_str());
        if (f != stdout) fclose(f); else fflush(stdout);
    }
};

// global pointer used by the watchdog to flush a report when it detects a hang
inline std::atomic<report *> g_active_report{nullptr};

inline uint64_t rdtsc() {
#if defined(__x86_64__)
    unsigned lo, hi;
    __asm__ __volatile__("rdtsc" : "=a"(lo), "=d"(hi));
    return ((uint64_t)hi << 32) | lo;
#else
    return 0;
#endif
}
inline void cpu_relax() {
#if defined(__x86_64__)
    __asm__ __volatile__("pause");
#endif
}

} // namespace vf
