// Move-sensitive payloads (std::string) through the value-carrying primitives. The checks of the individual properties use ids,
// instance-counted structs and move-only types; none of them notices a value that was MOVED where the caller's expression asked for
// a copy (lvalue arguments), or a value that one consumer's delivery emptied for the next consumer of the same result. Here every
// text is long enough to live on the heap, lvalue arguments are kept by the caller and compared afterwards, and every consumer of a
// shared result (several waiters of one future, several copies of a shared_future, several subscribers) must read the full text.
#pragma once
#include <vf/team.h>
#include <vf/payload.h>
#include <cocls/future.h>
#include <cocls/async.h>
#include <cocls/shared_future.h>
#include <cocls/publisher.h>
#include <memory>
#include <array>
#include <optional>
#include <string>
#include <sstream>
#include <iterator>
#include <vector>

namespace scn {
using vf::tracked;

inline std::string sv_text(uint64_t cn, int k) { return "text-" + std::to_string(cn) + "-" + std::to_string(k) + "-long enough to be kept on the heap and not in the small-string buffer"; }
inline bool sv_intact(const std::string &s, const std::string &want) { return s == want; }

// ---- future<std::string> / promise<std::string> (C01: the winner's payload, losing calls leave no trace; C02: every waiter sees the complete result)
inline cocls::async<void> sv_waiter(cocls::future<std::string> &f, std::string &got, int &released) {
    try { std::string &v = co_await f; got = v; } catch (...) { got = "<exception>"; }
    released++;
}
struct sv_cb : cocls::awaiter {
    cocls::future<std::string> *f = nullptr; std::string got; int fired = 0;
    sv_cb() { set_resume_fn(&fire, this); }
    static cocls::suspend_point<void> fire(cocls::awaiter *, void *ctx) noexcept { auto *me = static_cast<sv_cb *>(ctx); me->fired++; try { me->got = me->f->value(); } catch (...) { me->got = "<exception>"; } return {}; }
};
inline void future_string_values(const vf::opts &o, vf::report &R, uint64_t cases) {
    vf::rng master(vf::mix(o.seed, 0x57a1));
    for (uint64_t cn = 0; cn < cases && R.nviol() < 5; cn++) {
        vf::rng r(master.next());
        vf::set_crash_ctx(R.prop.c_str(), "future_string_values", o.seed, cn);
        std::string err, desc;
        const std::string text = sv_text(cn, 0), other = sv_text(cn, 1);
        std::string expect;
        {
            cocls::future<std::string> f;
            cocls::promise<std::string> p = f.get_promise();
            int nw = (int)r.below(4);
            std::vector<std::string> got((size_t)nw); std::vector<int> rel((size_t)nw, 0);
            bool before = r.chance(2, 3); // waiters registered before the resolution (parked) or arriving afterwards (already resolved)
            sv_cb cb; cb.f = &f; bool use_cb = r.chance(1, 3); bool cb_registered = false;
            if (before) { for (int i = 0; i < nw; i++) sv_waiter(f, got[(size_t)i], rel[(size_t)i]).detach(); if (use_cb) cb_registered = f.operator co_await().subscribe(&cb); }
            int form = (int)r.below(6);
            bool ok = false;
            switch (form) {
            case 0: { std::string lv = text; ok = p(lv); desc = "p(lvalue)"; expect = text; if (!sv_intact(lv, text)) err = "promise call with an lvalue argument changed the caller's object"; break; }
            case 1: { const std::string clv = text; ok = p(clv); desc = "p(const lvalue)"; expect = text; break; }
            case 2: { std::string lv = text; ok = p(std::move(lv)); desc = "p(moved lvalue)"; expect = text; break; }
            case 3: ok = p(std::string(text)); desc = "p(temporary)"; expect = text; break;
            case 4: ok = p(text.c_str()); desc = "p(const char*)"; expect = text; break;
            default: ok = p((std::size_t)70, 'x'); desc = "p(count, char)"; expect = std::string(70, 'x'); break;
            }
            if (!ok && err.empty()) err = "the only promise call reported failure";
            // a second, losing call with an lvalue: reports failure and leaves no trace - neither in the future nor in the argument
            { std::string lv = other; bool ok2 = p(lv); desc += " then p(lvalue) again"; if (ok2 && err.empty()) err = "second call on a spent promise reported success"; if (!sv_intact(lv, other) && err.empty()) err = "a losing promise call consumed / changed its lvalue argument"; }
            if (!before) { for (int i = 0; i < nw; i++) sv_waiter(f, got[(size_t)i], rel[(size_t)i]).detach(); if (use_cb) { cb_registered = f.operator co_await().subscribe(&cb); if (!cb_registered) { cb.fired++; cb.got = f.value(); } } }
            desc += before ? " [waiters parked]" : " [waiters after resolution]";
            desc += " waiters=" + std::to_string(nw) + (use_cb ? "+callback" : "");
            for (int i = 0; i < nw && err.empty(); i++) {
                if (rel[(size_t)i] != 1) err = "waiter released " + std::to_string(rel[(size_t)i]) + " times";
                else if (got[(size_t)i] != expect) err = "waiter #" + std::to_string(i) + " read '" + got[(size_t)i].substr(0, 16) + "' (" + std::to_string(got[(size_t)i].size()) + " chars) instead of the resolved text (" + std::to_string(expect.size()) + " chars)";
            }
            if (use_cb && err.empty()) { if (cb.fired != 1) err = "callback awaiter fired " + std::to_string(cb.fired) + " times"; else if (cb.got != expect) err = "callback awaiter read a damaged value"; }
            if (err.empty()) { std::string a = f.value(); std::string b = f.wait(); if (a != expect || b != expect) err = "value()/wait() after the waiters do not return the resolved text any more"; }
        }
        R.cases++;
        if (!err.empty()) { R.violation("monitor:payload|future_string_values", err, vf::jobj().kv("case", (unsigned long long)cn).kv("seed", (unsigned long long)o.seed).kv("desc", desc).str()); continue; }
        R.nontrivial_cases++; R.sig(desc);
        if (R.samples.size() < 2) R.sample(vf::jobj().kv("case", desc).kv("result", "every reader saw the resolved text; lvalue arguments untouched").str());
    }
}

// ---- shared_future<std::string> (C17: all copies observe the same single result)
inline cocls::async<void> sv_shared_waiter(cocls::shared_future<std::string> sf, std::string &got, int &released) {
    try { std::string &v = co_await sf; got = v; } catch (...) { got = "<exception>"; }
    released++;
}
inline void shared_future_string_values(const vf::opts &o, vf::report &R, uint64_t cases) {
    vf::rng master(vf::mix(o.seed, 0x57a2));
    for (uint64_t cn = 0; cn < cases && R.nviol() < 5; cn++) {
        vf::rng r(master.next());
        vf::set_crash_ctx(R.prop.c_str(), "shared_future_string_values", o.seed, cn);
        std::string err, desc;
        const std::string text = sv_text(cn, 2);
        {
            cocls::shared_future<std::string> sf;
            auto p = sf.get_promise();
            int nw = 1 + (int)r.below(4), early = (int)r.below((uint32_t)nw + 1);
            std::vector<std::string> got((size_t)nw); std::vector<int> rel((size_t)nw, 0);
            for (int i = 0; i < early; i++) sv_shared_waiter(sf, got[(size_t)i], rel[(size_t)i]).detach();
            switch (r.below(3)) {
            case 0: { std::string lv = text; p(lv); desc = "p(lvalue)"; if (!sv_intact(lv, text)) err = "promise call with an lvalue argument changed the caller's object"; break; }
            case 1: { std::string lv = text; p(std::move(lv)); desc = "p(moved lvalue)"; break; }
            default: p(std::string(text)); desc = "p(temporary)"; break;
            }
            for (int i = early; i < nw; i++) sv_shared_waiter(sf, got[(size_t)i], rel[(size_t)i]).detach();
            cocls::shared_future<std::string> c2 = sf;
            desc += " waiters=" + std::to_string(early) + " parked + " + std::to_string(nw - early) + " late";
            for (int i = 0; i < nw && err.empty(); i++) {
                if (rel[(size_t)i] != 1) err = "awaiter of a copy released " + std::to_string(rel[(size_t)i]) + " times";
                else if (got[(size_t)i] != text) err = "copy #" + std::to_string(i) + " observed a different / damaged result (" + std::to_string(got[(size_t)i].size()) + " chars)";
            }
            if (err.empty()) { std::string a = c2.value(); std::string b = sf.wait(); if (a != text || b != text) err = "value() of a later copy does not return the resolved text"; }
        }
        R.cases++;
        if (!err.empty()) { R.violation("monitor:payload|shared_future_string_values", err, vf::jobj().kv("case", (unsigned long long)cn).kv("seed", (unsigned long long)o.seed).kv("desc", desc).str()); continue; }
        R.nontrivial_cases++; R.sig(desc);
    }
}

// ---- shared_future<T> / future<T> whose result comes from an operation returning future<T&> (allowed: ReturnsFuture accepts the reference
// form; the result then REFERS to the resolver's object). All copies observe that one object; nothing is copied, and releasing the
// shared state must not destroy anything (the object belongs to the resolver).
inline cocls::async<void> sv_ref_waiter(cocls::shared_future<tracked> sf, const tracked *&seen, uint64_t &id, int &released) {
    try { tracked &v = co_await sf; seen = &v; id = v.ok() ? v.id : 0xBAD; } catch (...) { id = 0xE; }
    released++;
}
inline void shared_future_reference_source(const vf::opts &o, vf::report &R, uint64_t cases) {
    vf::rng master(vf::mix(o.seed, 0x57a5));
    for (uint64_t cn = 0; cn < cases && R.nviol() < 5; cn++) {
        vf::rng r(master.next());
        vf::set_crash_ctx(R.prop.c_str(), "shared_future_reference_source", o.seed, cn);
        std::string err, desc;
        tracked obj((uint64_t)(5000 + cn % 1000));
        const uint64_t want_id = obj.id;
        long ctor0 = tracked::ctor.load(), dtor0 = tracked::dtor.load(), bad0 = tracked::bad.load();
        {
            std::optional<cocls::promise<tracked &>> rp;
            bool early = r.chance(1, 3); // the operation is already complete when the shared_future is built
            int outcome_kind = (int)r.below(4); // 0-1 value, 2 exception, 3 dropped
            auto resolve = [&](cocls::promise<tracked &> &p) { if (outcome_kind <= 1) p(obj); else if (outcome_kind == 2) p(vf::make_exc(9)); else p(cocls::drop); };
            cocls::shared_future<tracked> sf([&] { return cocls::future<tracked &>([&](cocls::promise<tracked &> p) { if (early) resolve(p); else rp.emplace(std::move(p)); }); });
            int nw = 1 + (int)r.below(4), first = early ? 0 : (int)r.below((uint32_t)nw + 1);
            std::vector<const tracked *> seen((size_t)nw, nullptr); std::vector<uint64_t> ids((size_t)nw, 0); std::vector<int> rel((size_t)nw, 0);
            for (int i = 0; i < first; i++) sv_ref_waiter(sf, seen[(size_t)i], ids[(size_t)i], rel[(size_t)i]).detach();
            if (!early) { resolve(*rp); rp.reset(); }
            for (int i = first; i < nw; i++) sv_ref_waiter(sf, seen[(size_t)i], ids[(size_t)i], rel[(size_t)i]).detach();
            desc = std::string("shared_future<counted> from an operation returning future<counted&>, ") + (early ? "already complete" : "completed later") + ", outcome " + (outcome_kind <= 1 ? "value" : outcome_kind == 2 ? "exception" : "dropped") + ", " + std::to_string(first) + " parked + " + std::to_string(nw - first) + " late awaiters";
            for (int i = 0; i < nw && err.empty(); i++) {
                if (rel[(size_t)i] != 1) err = "awaiter of a copy released " + std::to_string(rel[(size_t)i]) + " times";
                else if (outcome_kind <= 1 && ids[(size_t)i] != want_id) err = "copy #" + std::to_string(i) + " observed a result that is not the resolver's object (id " + std::to_string(ids[(size_t)i]) + ", expected " + std::to_string(want_id) + ")";
                else if (outcome_kind > 1 && ids[(size_t)i] != 0xE) err = "copy #" + std::to_string(i) + " observed a value although the operation ended with an exception / was dropped";
            }
            if (err.empty() && outcome_kind <= 1) { cocls::shared_future<tracked> c2 = sf; tracked &v = c2.value(); if (!v.ok() || v.id != want_id) err = "value() of a later copy is not the resolver's object"; }
        } // every handle gone: the shared state is released
        R.cases++;
        if (err.empty() && !obj.ok()) err = "the resolver's object was damaged / destroyed by the shared state";
        if (err.empty() && tracked::bad.load() != bad0) err = "something that is not a live object was destroyed when the shared state was released";
        if (err.empty() && (tracked::ctor.load() != ctor0 || tracked::dtor.load() != dtor0)) err = "the shared state constructed / destroyed payload objects (" + std::to_string(tracked::ctor.load() - ctor0) + " / " + std::to_string(tracked::dtor.load() - dtor0) + ") although its result only refers to the resolver's object";
        if (!err.empty()) { R.violation("monitor:payload|shared_future_reference_source", err, vf::jobj().kv("case", (unsigned long long)cn).kv("seed", (unsigned long long)o.seed).kv("desc", desc).str()); continue; }
        R.nontrivial_cases++; R.sig(desc);
    }
}

// ---- MANY awaiters on copies of one shared_future (more than a suspend point carries inline), result produced by every kind of resolver
inline cocls::async<int> sv_sf_source(cocls::future<void> &gate) { bool hv = co_await gate.has_value(); (void)hv; co_return 77; }
inline cocls::async<void> sv_sf_waiter(cocls::shared_future<int> sf, int &val, int &rel) { try { int &v = co_await sf; val = v; } catch (...) { val = -1; } rel++; }
template <typename P> cocls::async<void> sv_sf_coro_resolver(P &p, bool await_it, int &continued) { if (await_it) { bool ok = co_await p(77); (void)ok; } else p(77); continued++; }
inline void shared_future_many_awaiters(const vf::opts &o, vf::report &R, uint64_t cases) {
    static const int counts[] = {1, 2, 3, 4, 4, 5, 6, 7, 8, 9, 12, 13};
    vf::rng master(vf::mix(o.seed, 0x57a6));
    for (uint64_t cn = 0; cn < cases && R.nviol() < 5; cn++) {
        vf::rng r(master.next());
        vf::set_crash_ctx(R.prop.c_str(), "shared_future_many_awaiters", o.seed, cn);
        int n = counts[r.below(12)], mode = (int)r.below(4);
        static const char *mn[] = {"promise called from ordinary code", "coroutine co_awaits the promise's suspend point", "coroutine discards the promise's suspend point", "result produced by a coroutine (shared_future built from a function returning its future)"};
        std::string desc = std::to_string(n) + " awaiters on copies, " + mn[mode], err;
        auto val = std::make_unique<std::array<int, 16>>(); auto rel = std::make_unique<std::array<int, 16>>(); val->fill(-9); rel->fill(0);
        int continued = 0;
        {
            cocls::future<void> gate; cocls::promise<void> gp = gate.get_promise();
            std::optional<cocls::shared_future<int>> sf;
            if (mode == 3) sf.emplace([&] { return sv_sf_source(gate).start(); });
            else sf.emplace();
            auto run = [&](auto &prom) {
                for (int i = 0; i < n; i++) sv_sf_waiter(*sf, (*val)[(size_t)i], (*rel)[(size_t)i]).detach();
                if (mode == 0) prom(77);
                else { sv_sf_coro_resolver(prom, mode == 1, continued).detach(); if (continued != 1) err = "resolving coroutine continued " + std::to_string(continued) + " times"; }
            };
            if (mode == 3) { for (int i = 0; i < n; i++) sv_sf_waiter(*sf, (*val)[(size_t)i], (*rel)[(size_t)i]).detach(); gp(); }
            else { auto prom = sf->get_promise(); run(prom); }
            if (r.chance(1, 2)) sf.reset(); // the handle of ordinary code goes away; the awaiters' copies are gone as they finished
            for (int i = 0; i < n && err.empty(); i++) {
                if ((*rel)[(size_t)i] != 1) err = "awaiter #" + std::to_string(i) + " of " + std::to_string(n) + " resumed " + std::to_string((*rel)[(size_t)i]) + " times";
                else if ((*val)[(size_t)i] != 77) err = "awaiter #" + std::to_string(i) + " observed " + std::to_string((*val)[(size_t)i]) + " instead of 77";
            }
            if (!err.empty() && sf) { (void)new cocls::shared_future<int>(*sf); } // keep the state alive: awaiters may still be registered
        }
        R.cases++;
        if (!err.empty()) { R.violation("monitor:wakeup|shared_future_many_awaiters", err, vf::jobj().kv("case", (unsigned long long)cn).kv("seed", (unsigned long long)o.seed).kv("desc", desc).str()); continue; }
        if (n >= 4) R.nontrivial_cases++;
        R.sig(desc, n >= 4);
    }
}

// ---- a value type whose MOVE cannot throw but whose COPY can: the resolver passes an lvalue and the copy throws. The promise is spent
// by then, so the exception must become the shared result (every awaiter of every copy is resumed with it, the state is freed) - it
// must not escape to the resolver and leave the future pending for ever.
struct sv_thr_copy {
    std::string s; static inline bool boom = false;
    explicit sv_thr_copy(std::string x) : s(std::move(x)) {}
    sv_thr_copy(sv_thr_copy &&) noexcept = default;
    sv_thr_copy(const sv_thr_copy &o) : s(o.s) { if (boom) throw vf::test_exc{61}; }
};
inline cocls::async<void> sv_tc_waiter(cocls::shared_future<sv_thr_copy> sf, int &code, int &rel) {
    try { sv_thr_copy &v = co_await sf; code = v.s.size() > 20 ? 0 : -5; } catch (const vf::test_exc &e) { code = e.code; } catch (...) { code = -9; }
    rel++;
}
inline void shared_future_throwing_copy(const vf::opts &o, vf::report &R, uint64_t cases) {
    vf::rng master(vf::mix(o.seed, 0x57a7));
    for (uint64_t cn = 0; cn < cases && R.nviol() < 5; cn++) {
        vf::rng r(master.next());
        vf::set_crash_ctx(R.prop.c_str(), "shared_future_throwing_copy", o.seed, cn);
        int n = 1 + (int)r.below(4); bool throwing = r.chance(2, 3); bool drop_handles = r.chance(1, 3);
        std::string desc = std::to_string(n) + " awaiters, resolver passes an lvalue" + (throwing ? " whose copy throws" : "") + (drop_handles ? ", ordinary code drops its handle first" : ""), err;
        std::array<int, 8> code{}, rel{}; code.fill(-1); rel.fill(0);
        bool escaped = false;
        {
            std::optional<cocls::shared_future<sv_thr_copy>> sf; sf.emplace();
            auto p = sf->get_promise();
            for (int i = 0; i < n; i++) sv_tc_waiter(*sf, code[(size_t)i], rel[(size_t)i]).detach();
            if (drop_handles) sf.reset();
            sv_thr_copy lv(sv_text(cn, 50));
            sv_thr_copy::boom = throwing;
            try { p(lv); } catch (...) { escaped = true; }
            sv_thr_copy::boom = false;
            if (escaped) err = "the value constructor's exception escaped to the resolver (the promise is spent: nobody can resolve the shared state any more)";
            for (int i = 0; i < n && err.empty(); i++) {
                if (rel[(size_t)i] != 1) err = "awaiter #" + std::to_string(i) + " resumed " + std::to_string(rel[(size_t)i]) + " times";
                else if (code[(size_t)i] != (throwing ? 61 : 0)) err = "awaiter #" + std::to_string(i) + " observed " + std::to_string(code[(size_t)i]) + ", expected " + (throwing ? "the constructor's exception" : "the value");
            }
            if (!err.empty() && sf) (void)new cocls::shared_future<sv_thr_copy>(*sf);
        }
        R.cases++;
        if (!err.empty()) { R.violation("monitor:payload|shared_future_throwing_copy", err, vf::jobj().kv("case", (unsigned long long)cn).kv("seed", (unsigned long long)o.seed).kv("desc", desc).str()); continue; }
        R.nontrivial_cases++; R.sig(desc);
    }
}

// ---- publisher<std::string> (C16: every all_values subscriber reads every published value)
inline cocls::async<void> sv_subscriber(cocls::publisher<std::string> &pub, std::vector<std::string> &got, int &ended) {
    cocls::subscriber<std::string> sub(pub);
    for (;;) {
        bool b = co_await sub.next();
        if (!b) break;
        got.push_back(sub.value());
    }
    ended++;
}
inline void publisher_string_values(const vf::opts &o, vf::report &R, uint64_t cases) {
    vf::rng master(vf::mix(o.seed, 0x57a3));
    for (uint64_t cn = 0; cn < cases && R.nviol() < 5; cn++) {
        vf::rng r(master.next());
        vf::set_crash_ctx(R.prop.c_str(), "publisher_string_values", o.seed, cn);
        std::string err, desc;
        int ns = 1 + (int)r.below(3);
        std::vector<std::vector<std::string>> got((size_t)ns); std::vector<int> ended((size_t)ns, 0);
        std::vector<std::string> published;
        {
            cocls::publisher<std::string> pub;
            for (int i = 0; i < ns; i++) sv_subscriber(pub, got[(size_t)i], ended[(size_t)i]).detach();
            int n = 1 + (int)r.below(6);
            for (int k = 0; k < n && err.empty(); k++) {
                std::string text = sv_text(cn, 10 + k);
                switch (r.below(5)) {
                case 4: { // batch from SINGLE-PASS input iterators (a stream): the range can be walked exactly once
                    std::string a = "stream-" + std::to_string(cn) + "-" + std::to_string(k) + "-first-word-long-enough-for-the-heap", b = a + "/second", c = a + "/third";
                    std::istringstream is(a + " " + b + " " + c);
                    pub.publish(std::istream_iterator<std::string>(is), std::istream_iterator<std::string>()); desc += "publish(input iterators, 3 words) ";
                    published.push_back(a); published.push_back(b); published.push_back(c);
                    break;
                }
                case 0: { std::string lv = text; pub.publish(lv); desc += "publish(lvalue) "; published.push_back(text); if (!sv_intact(lv, text)) err = "publish(lvalue) changed the caller's object"; break; }
                case 1: { std::string lv = text; pub.publish(std::move(lv)); desc += "publish(moved) "; published.push_back(text); break; }
                case 2: pub.publish(std::string(text)); desc += "publish(temporary) "; published.push_back(text); break;
                default: {
                    std::vector<std::string> batch{text + "/a", text + "/b", text + "/c"}; const std::vector<std::string> keep = batch;
                    pub.publish(batch.begin(), batch.end()); desc += "publish(batch of 3) ";
                    for (auto &b : keep) published.push_back(b);
                    if (batch != keep) err = "publish(begin, end) changed the caller's container";
                    break;
                }
                }
            }
            pub.close();
        }
        R.cases++;
        for (int i = 0; i < ns && err.empty(); i++) {
            if (ended[(size_t)i] != 1) err = "subscriber did not see the end of the stream exactly once";
            else if (got[(size_t)i] != published) err = "subscriber #" + std::to_string(i) + " read " + std::to_string(got[(size_t)i].size()) + " values that differ from the " + std::to_string(published.size()) + " published texts (a value was damaged or lost)";
        }
        if (!err.empty()) { R.violation("monitor:payload|publisher_string_values", err, vf::jobj().kv("case", (unsigned long long)cn).kv("seed", (unsigned long long)o.seed).kv("desc", desc).str()); continue; }
        R.nontrivial_cases++; R.sig(desc + "subs=" + std::to_string(ns));
    }
}

// ---- async<std::string> (C04: the value reaches the bound party)
struct sv_src { std::string kept; };
inline cocls::async<std::string> sv_async_body(sv_src &S, int form, const std::string text) {
    if (form == 0) { std::string local = text; co_return local; }
    if (form == 1) co_return S.kept;                 // lvalue that lives on: must be copied
    if (form == 2) { const std::string &ref = S.kept; co_return ref; }
    co_return std::string(text);
}
inline cocls::async<void> sv_async_awaiter(sv_src &S, int form, const std::string &text, std::string &got) { got = co_await sv_async_body(S, form, text); }
inline void async_string_results(const vf::opts &o, vf::report &R, uint64_t cases) {
    vf::rng master(vf::mix(o.seed, 0x57a4));
    for (uint64_t cn = 0; cn < cases && R.nviol() < 5; cn++) {
        vf::rng r(master.next());
        vf::set_crash_ctx(R.prop.c_str(), "async_string_results", o.seed, cn);
        std::string err, desc, got;
        const std::string text = sv_text(cn, 30);
        sv_src S; S.kept = text;
        int form = (int)r.below(4), mode = (int)r.below(4);
        static const char *fn[] = {"co_return local", "co_return member lvalue", "co_return const reference", "co_return temporary"};
        static const char *mn[] = {"start()", "co_await", "join()", "future<T>(async)"};
        desc = std::string(fn[form]) + " via " + mn[mode];
        try {
            switch (mode) {
            case 0: { cocls::future<std::string> f = sv_async_body(S, form, text).start(); got = f.wait(); break; }
            case 1: sv_async_awaiter(S, form, text, got).join(); break;
            case 2: got = sv_async_body(S, form, text).join(); break;
            default: { cocls::future<std::string> f(sv_async_body(S, form, text)); got = f.value(); break; }
            }
        } catch (...) { err = "unexpected exception"; }
        R.cases++;
        if (err.empty() && got != text) err = "the bound party received '" + got.substr(0, 16) + "' (" + std::to_string(got.size()) + " chars) instead of the returned text";
        if (err.empty() && S.kept != text) err = "co_return of an lvalue emptied / changed the object it names";
        if (!err.empty()) { R.violation("monitor:payload|async_string_results", err, vf::jobj().kv("case", (unsigned long long)cn).kv("seed", (unsigned long long)o.seed).kv("desc", desc).str()); continue; }
        R.nontrivial_cases++; R.sig(desc);
    }
}

} // namespace scn
