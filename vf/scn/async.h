// C04 - an async coroutine runs once, delivers to its bound party, frees once
#pragma once
#include <vf/team.h>
#include <vf/payload.h>
#include <cocls/future.h>
#include <cocls/async.h>
#include <cocls/thread_pool.h>
#include "future.h" // read_future / outcome
#include <thread>
#include <memory>
#include <optional>

namespace scn {

enum { AM_DETACH_DISCARD = 0, AM_DETACH_AWAIT, AM_START, AM_START_PROMISE, AM_START_CLAIMED, AM_CO_AWAIT, AM_JOIN, AM_FUTURE_CTOR, AM_FUTURE_FN, AM_POOL_RUN,
       AM_NEVER_STARTED, AM_START_PROMISE_RV, AM_FUTURE_CTOR_LVALUE, AM_POOL_RUN_LVALUE, AM_NMODES };
inline const char *am_name(int m) {
    static const char *n[] = {"detach (discarded)", "detach (awaited)", "start()", "start(promise&)", "start(claimed promise)", "co_await", "join()",
                              "future<T>(async)", "future<T> function", "thread_pool::run", "never started", "start(promise&&)", "future<T>(async lvalue)", "thread_pool::run(async lvalue)"};
    return n[m];
}
enum { AC_VALUE = 0, AC_THROW, AC_SUSPEND_VALUE, AC_SUSPEND_THROW };
inline const char *ac_name(int c) { static const char *n[] = {"immediate value", "immediate throw", "suspend then value", "suspend then throw"}; return n[c]; }

struct c4_ctx {
    int depth = 1;
    int completion = 0;
    int throw_level = -1;
    bool throw_cancel_reason = false; // the throwing level throws a user exception DERIVED from await_canceled_exception (same code)
    int bomb_level = -1; // this level co_returns arguments from which the result cannot be constructed (constructor throws 50+level)
    std::atomic<int> body_runs[8];
    std::atomic<int> body_done[8];
    cocls::future<void> gate;
    std::optional<cocls::promise<void>> gate_prom;
    uint64_t base = 1000;
    c4_ctx() { for (auto &b : body_runs) b = 0; for (auto &b : body_done) b = 0; gate_prom.emplace(gate.get_promise()); }
    void open_gate() { if (gate_prom) { (*gate_prom)(); gate_prom.reset(); } }
};

template <typename T> T c4_value(uint64_t v) {
    if constexpr (std::is_same_v<T, int>) return (int)v; else return T(v);
}
template <typename T> uint64_t c4_id(const T &v) {
    if constexpr (std::is_same_v<T, int>) return (uint64_t)v; else return v.ok() ? v.id : BADVAL;
}

template <typename T> cocls::async<T> c4_body(c4_ctx &X, int level, tracked arg) {
    X.body_runs[level].fetch_add(1, std::memory_order_relaxed);
    tracked local(arg.id + 7); // RAII guard living in the frame
    uint64_t inner = X.base;
    if (level + 1 < X.depth) {
        if constexpr (std::is_void_v<T>) { co_await c4_body<T>(X, level + 1, tracked(arg.id + 1)); }
        else {
            T v = std::move(co_await c4_body<T>(X, level + 1, tracked(arg.id + 1)));
            inner = c4_id(v) + 1;
        }
    } else {
        if (X.completion >= AC_SUSPEND_VALUE) { bool hv = co_await X.gate.has_value(); (void)hv; }
    }
    if (!local.ok() || !arg.ok()) throw vf::test_exc{-77};
    X.body_done[level].fetch_add(1, std::memory_order_relaxed);
    if (X.throw_level == level) { if (X.throw_cancel_reason) throw f_cancel_reason(level); throw vf::test_exc{level}; }
    if constexpr (std::is_same_v<T, vf::tracked_thr>) { if (X.bomb_level == level) co_return vf::bomb{50 + level}; }
    if constexpr (std::is_void_v<T>) co_return; else co_return c4_value<T>(inner);
}
// coroutine declared with future<T> as its return type (started on call)
template <typename T> cocls::future<T> c4_future_fn(c4_ctx &X, tracked arg) {
    X.body_runs[0].fetch_add(1, std::memory_order_relaxed);
    tracked local(arg.id + 7);
    uint64_t inner = X.base;
    if (X.depth > 1) {
        if constexpr (std::is_void_v<T>) { co_await c4_body<T>(X, 1, tracked(arg.id + 1)); }
        else { T v = std::move(co_await c4_body<T>(X, 1, tracked(arg.id + 1))); inner = c4_id(v) + 1; }
    } else if (X.completion >= AC_SUSPEND_VALUE) { bool hv = co_await X.gate.has_value(); (void)hv; }
    X.body_done[0].fetch_add(1, std::memory_order_relaxed);
    if (X.throw_level == 0) throw vf::test_exc{0};
    if constexpr (std::is_same_v<T, vf::tracked_thr>) { if (X.bomb_level == 0) co_return vf::bomb{50}; }
    if constexpr (std::is_void_v<T>) co_return; else co_return c4_value<T>(inner);
}

// the coroutine OBJECT travels through move constructions before it is used (moved-from objects must not own the frame any more)
template <typename T> cocls::async<T> c4_moved(cocls::async<T> a, int times) {
    if (times <= 0) return a;
    cocls::async<T> b(std::move(a));
    return c4_moved<T>(std::move(b), times - 1);
}

template <typename T> struct c4_result { outcome got; bool have = false; int start_reported = -1; };

// driver coroutine for the modes that need coroutine context
template <typename T> cocls::async<void> c4_driver(c4_ctx &X, int mode, c4_result<T> &res, std::atomic<int> &driver_done) {
    if (mode == AM_DETACH_AWAIT) {
        cocls::suspend_point<void> sp = c4_body<T>(X, 0, tracked(1)).detach();
        co_await sp; // transfers execution to the coroutine right now
    } else {
        try {
            if constexpr (std::is_void_v<T>) { co_await c4_body<T>(X, 0, tracked(1)); res.got.state = PS_VALUE; }
            else { T v = std::move(co_await c4_body<T>(X, 0, tracked(1))); res.got.state = PS_VALUE; res.got.val = c4_id(v); }
        } catch (const vf::test_exc &e) { res.got.state = PS_EXC; res.got.code = e.code; } catch (const f_cancel_reason &e) { res.got.state = PS_EXC; res.got.code = e.code; } catch (const cocls::await_canceled_exception &) { res.got.state = PS_CANCELED; }
        catch (const cocls::await_canceled_exception &) { res.got.state = PS_CANCELED; }
        res.have = true;
    }
    driver_done.store(1, std::memory_order_release);
}

template <typename T> cocls::async<void> c4_start_inside(cocls::async<T> a, bool via_ctor, std::unique_ptr<cocls::future<T>> &fut, std::atomic<int> &done) {
    if (via_ctor) fut.reset(new cocls::future<T>(std::move(a))); else fut.reset(new cocls::future<T>(a.start()));
    fut->force_sync();
    done.store(1, std::memory_order_release);
    co_return;
}
template <typename T>
void async_program(const vf::opts &o, vf::report &R, uint64_t pn, vf::rng &r, cocls::thread_pool &pool, int force_mode, int force_completion) {
    int mode = force_mode >= 0 ? force_mode : (int)r.below(AM_NMODES);
    auto Xp = std::make_unique<c4_ctx>();
    c4_ctx &X = *Xp;
    X.depth = 1 + (int)r.below(r.chance(1, 3) ? 6 : 2);
    X.completion = force_completion >= 0 ? force_completion : (int)r.below(4);
    bool throws = X.completion == AC_THROW || X.completion == AC_SUSPEND_THROW;
    X.throw_level = throws ? (int)r.below((uint32_t)X.depth) : -1;
    X.throw_cancel_reason = throws && r.chance(1, 3);
    if constexpr (std::is_same_v<T, vf::tracked_thr>) { if (!throws && r.chance(1, 2)) X.bomb_level = (int)r.below((uint32_t)X.depth); }
    bool other_thread = r.chance(1, 3);
    int premoves = r.chance(1, 3) ? 1 + (int)r.below(2) : 0;
    auto MK = [&]() { return c4_moved<T>(c4_body<T>(X, 0, tracked(1)), premoves); };
    bool suspends = X.completion >= AC_SUSPEND_VALUE;
    // thread-pool start on a pool that was stopped before: the coroutine is never started - it must not run, the future reports a broken
    // promise and the frame with its arguments is destroyed exactly once (same contract as a coroutine object that is never started)
    bool stopped_pool = (mode == AM_POOL_RUN || mode == AM_POOL_RUN_LVALUE) && r.chance(1, 4);
    // start() / future<T>(async) issued from INSIDE a running coroutine that then consumes the bound future with the blocking form allowed
    // in coroutines (force_sync) before its own next suspension: the started coroutine must run inside start(), not "later"
    bool inside_force = (mode == AM_START || mode == AM_FUTURE_CTOR) && r.chance(1, 3);
    if (mode == AM_FUTURE_FN && false) X.depth = 1;
    std::string desc = std::string(ftype_name<T>()) + " / " + am_name(mode) + (stopped_pool ? " [pool already stopped]" : "") + (inside_force ? " [from inside a coroutine, then force_sync()]" : "") + " / " + ac_name(X.completion) + " / depth " + std::to_string(X.depth) +
                       (premoves ? " / object moved " + std::to_string(premoves) + "x" : "") + (throws ? std::string(X.throw_cancel_reason ? " throw(derived from await_canceled_exception)@" : " throw@") + std::to_string(X.throw_level) : "") + (X.bomb_level >= 0 ? " unconstructible-result@" + std::to_string(X.bomb_level) : "") + (suspends ? (other_thread ? " / finished by another thread" : " / finished by the same thread") : "");
    vf::set_crash_ctx(R.prop.c_str(), "async_programs", o.seed, pn, desc.c_str());
    long live0 = tracked::live.load(), bad0 = tracked::bad.load();
    c4_result<T> res;
    std::string err;
    bool started = true, bound = true;
    std::thread helper;
    auto open_later = [&]() { // opens the gate, on this or on another thread
        if (!suspends) return;
        if (other_thread) helper = std::thread([&X] { for (int i = 0; i < 200; i++) vf::cpu_relax(); X.open_gate(); });
        else X.open_gate();
    };
    auto open_before_blocking = [&]() { // for blocking start modes the gate must be opened by somebody else
        if (suspends) helper = std::thread([&X] { for (int i = 0; i < 2000; i++) vf::cpu_relax(); X.open_gate(); });
    };
    {
        std::unique_ptr<cocls::future<T>> fut;
        std::atomic<int> driver_done{0};
        switch (mode) {
        case AM_DETACH_DISCARD: bound = false; MK().detach(); open_later(); break;
        case AM_DETACH_AWAIT: bound = false; c4_driver<T>(X, mode, res, driver_done).detach(); open_later(); break;
        case AM_START:
            if (inside_force) { open_before_blocking(); c4_start_inside<T>(MK(), false, fut, driver_done).detach(); if (!driver_done.load() && err.empty()) err = "coroutine that started another one and blocked on its future did not finish"; break; }
            fut = std::unique_ptr<cocls::future<T>>(new cocls::future<T>(MK().start())); open_later(); break;
        case AM_START_PROMISE:
        case AM_START_PROMISE_RV: {
            fut = std::make_unique<cocls::future<T>>();
            cocls::promise<T> p = fut->get_promise();
            cocls::async<T> a = MK();
            bool ok = mode == AM_START_PROMISE ? (bool)a.start(p) : (bool)a.start(std::move(p));
            res.start_reported = ok;
            if (!ok) err = "start(promise) reported false on an unclaimed promise";
            open_later();
            break;
        }
        case AM_START_CLAIMED: {
            started = false;
            fut = std::make_unique<cocls::future<T>>();
            cocls::promise<T> p = fut->get_promise();
            cocls::promise<T> thief = std::move(p); // p is claimed now
            {
                cocls::async<T> a = MK();
                bool ok = a.start(p);
                res.start_reported = ok;
                if (ok) err = "start(promise) reported true on an already claimed promise";
            } // unstarted coroutine destroyed here
            thief(cocls::drop);
            X.open_gate();
            break;
        }
        case AM_CO_AWAIT: c4_driver<T>(X, mode, res, driver_done).detach(); open_later(); break;
        case AM_JOIN: {
            open_before_blocking();
            try {
                if constexpr (std::is_void_v<T>) { MK().join(); res.got.state = PS_VALUE; }
                else { T v = MK().join(); res.got.state = PS_VALUE; res.got.val = c4_id(v); }
            } catch (const vf::test_exc &e) { res.got.state = PS_EXC; res.got.code = e.code; } catch (const f_cancel_reason &e) { res.got.state = PS_EXC; res.got.code = e.code; } catch (const cocls::await_canceled_exception &) { res.got.state = PS_CANCELED; }
            res.have = true;
            break;
        }
        case AM_FUTURE_CTOR:
            if (inside_force) { open_before_blocking(); c4_start_inside<T>(MK(), true, fut, driver_done).detach(); if (!driver_done.load() && err.empty()) err = "coroutine that started another one and blocked on its future did not finish"; break; }
            fut = std::unique_ptr<cocls::future<T>>(new cocls::future<T>(MK())); open_later(); break;
        case AM_FUTURE_FN: fut = std::unique_ptr<cocls::future<T>>(new cocls::future<T>(c4_future_fn<T>(X, tracked(1)))); open_later(); break;
        case AM_POOL_RUN:
            if (stopped_pool) { cocls::thread_pool dead(1); dead.stop(); started = false; fut = std::unique_ptr<cocls::future<T>>(new cocls::future<T>(dead.run(MK()))); break; }
            fut = std::unique_ptr<cocls::future<T>>(new cocls::future<T>(pool.run(MK()))); open_later(); break;
        case AM_FUTURE_CTOR_LVALUE: { // the named coroutine object stays in scope after the future took the coroutine over
            cocls::async<T> a = MK();
            fut = std::unique_ptr<cocls::future<T>>(new cocls::future<T>(a));
            open_later();
            break;
        }
        case AM_POOL_RUN_LVALUE: {
            cocls::async<T> a = MK();
            if (stopped_pool) { cocls::thread_pool dead(1); dead.stop(); started = false; fut = std::unique_ptr<cocls::future<T>>(new cocls::future<T>(dead.run(a))); break; }
            fut = std::unique_ptr<cocls::future<T>>(new cocls::future<T>(pool.run(a)));
            open_later();
            break;
        }
        case AM_NEVER_STARTED: { started = false; bound = false; cocls::async<T> a = MK(); (void)a; X.open_gate(); break; }
        }
        if (helper.joinable()) helper.join();
        if (fut) {
            fut->sync(); // completion may still be running on the pool / helper thread; a lost completion blocks here (watchdog)
            res.got = read_future(*fut, nullptr, 0);
            res.have = true;
        } else if (mode == AM_CO_AWAIT || mode == AM_DETACH_AWAIT || mode == AM_DETACH_DISCARD) {
            // completion happens on the thread that opened the gate, which has been joined: everything is finished
        }
        if ((mode == AM_CO_AWAIT || mode == AM_DETACH_AWAIT) && !driver_done.load(std::memory_order_acquire) && err.empty()) err = "driver coroutine did not finish";
    }
    X.open_gate();
    if ((mode == AM_POOL_RUN || mode == AM_POOL_RUN_LVALUE) && !stopped_pool) { // the frame is destroyed by the pool thread right AFTER it resolved the future: give it time (monitor read, bounded)
        static std::atomic<int> timeouts{0}; // a tree that leaks frames would otherwise spend seconds per program here
        uint64_t t0 = vf::rdtsc(), limit = timeouts.load(std::memory_order_relaxed) >= 3 ? 60000000ull : 6000000000ull;
        while (tracked::live.load() != live0 && vf::rdtsc() - t0 < limit) std::this_thread::yield();
        if (tracked::live.load() != live0) timeouts.fetch_add(1, std::memory_order_relaxed);
    }
    R.cases++;
    // ---------------- oracles
    outcome expect;
    if (!started) expect.state = PS_CANCELED;
    else if (throws) { expect.state = PS_EXC; expect.code = X.throw_level; }
    else if (X.bomb_level >= 0) { expect.state = PS_EXC; expect.code = 50 + X.bomb_level; } // the constructor's exception is the coroutine's outcome
    else { expect.state = PS_VALUE; expect.val = std::is_void_v<T> ? 0 : X.base + (uint64_t)X.depth - 1; }
    for (int l = 0; l < 8 && err.empty(); l++) {
        int want_runs = (started && l < X.depth) ? 1 : 0;
        if (X.body_runs[l].load() != want_runs) err = "body of level " + std::to_string(l) + " ran " + std::to_string(X.body_runs[l].load()) + " times, expected " + std::to_string(want_runs);
    }
    if (err.empty() && bound && res.have && !(res.got == expect)) err = "bound party received " + res.got.str() + ", the body produced " + expect.str();
    if (err.empty() && bound && !res.have && mode != AM_DETACH_AWAIT) err = "bound party received nothing";
    if (err.empty() && tracked::live.load() != live0) err = "frame contents (arguments/locals/result) not destroyed exactly once: live delta " + std::to_string(tracked::live.load() - live0);
    if (err.empty() && tracked::bad.load() != bad0) err = "argument/local destroyed twice or used after destruction";
    if (!err.empty()) {
        R.violation("monitor:async|async_programs", err, vf::jobj().kv("scenario", "async_programs").kv("seed", (unsigned long long)o.seed).kv("program", (unsigned long long)pn).kv("desc", desc)
                        .kv("received", res.got.str()).kv("expected", expect.str()).kv("start_reported", res.start_reported).str());
        (void)Xp.release();
        return;
    }
    R.nontrivial_cases++;
    R.sig(desc);
    R.cls(std::string("mode: ") + am_name(mode)); R.cls(std::string("completion: ") + ac_name(X.completion));
    if (R.samples.size() < 5 && X.depth > 2) R.sample(vf::jobj().kv("program", desc).kv("received", res.have ? res.got.str() : std::string("(nobody bound)")).kv("body_runs_per_level", "1").str());
}

inline void async_programs(const vf::opts &o, vf::report &R, uint64_t programs) {
    vf::rng master(vf::mix(o.seed, 0x04));
    cocls::thread_pool pool(2);
    uint64_t pn = 0;
    // full cross product once: start mode x completion x type
    for (int m = 0; m < AM_NMODES && R.nviol() < 5; m++) for (int c = 0; c < 4; c++) for (int t = 0; t < 4; t++) {
        vf::rng r(master.next());
        switch (t) {
        case 0: async_program<void>(o, R, pn++, r, pool, m, c); break;
        case 1: async_program<int>(o, R, pn++, r, pool, m, c); break;
        case 2: async_program<tracked_mo>(o, R, pn++, r, pool, m, c); break;
        default: async_program<tracked>(o, R, pn++, r, pool, m, c); break;
        }
    }
    for (int m = 0; m < AM_NMODES && R.nviol() < 5; m++) for (int c = 0; c < 4; c++) { vf::rng r(master.next()); async_program<vf::tracked_thr>(o, R, pn++, r, pool, m, c); }
    for (; pn < programs && R.nviol() < 5; pn++) {
        vf::rng r(master.next());
        switch (r.below(5)) {
        case 4: async_program<vf::tracked_thr>(o, R, pn, r, pool, -1, -1); break;
        case 0: async_program<void>(o, R, pn, r, pool, -1, -1); break;
        case 1: async_program<int>(o, R, pn, r, pool, -1, -1); break;
        case 2: async_program<tracked_mo>(o, R, pn, r, pool, -1, -1); break;
        default: async_program<tracked>(o, R, pn, r, pool, -1, -1); break;
        }
    }
}

// ---------------------------------------------------------------------------------------------
// Reference-typed results (async<T&>): the bound party must receive a reference to exactly the object named by co_return (identity,
// not a copy that dies with the frame), in every start mode, for synchronous and suspended completion.
struct c4ref_ctx {
    int target = 7; tracked obj{99};
    cocls::future<void> gate; std::optional<cocls::promise<void>> gp;
    int body_runs = 0;
    c4ref_ctx() { gp.emplace(gate.get_promise()); }
    void open() { if (gp) { (*gp)(); gp.reset(); } }
};
inline cocls::async<int &> c4ref_body(c4ref_ctx &X, bool suspend) { X.body_runs++; if (suspend) { bool hv = co_await X.gate.has_value(); (void)hv; } co_return X.target; }
inline cocls::async<const tracked &> c4cref_body(c4ref_ctx &X, bool suspend) { X.body_runs++; if (suspend) { bool hv = co_await X.gate.has_value(); (void)hv; } co_return X.obj; }
inline cocls::async<int &> c4ref_outer(c4ref_ctx &X, bool suspend) { int &r = co_await c4ref_body(X, suspend); co_return r; }
inline cocls::async<void> c4ref_driver(c4ref_ctx &X, bool suspend, const void *&seen, int &val) { int &r = co_await c4ref_body(X, suspend); seen = &r; val = r; }
inline cocls::async<void> c4cref_driver(c4ref_ctx &X, bool suspend, const void *&seen, int &val) { const tracked &r = co_await c4cref_body(X, suspend); seen = &r; val = r.ok() ? (int)r.id : -1; }

inline void async_reference_results(const vf::opts &o, vf::report &R, uint64_t programs) {
    vf::rng master(vf::mix(o.seed, 0x404));
    cocls::thread_pool pool(1);
    static const char *mn[] = {"start()", "future<T&>(async)", "start(promise)", "co_await", "join()", "thread_pool::run", "co_await chain + start()"};
    for (uint64_t pn = 0; pn < programs && R.nviol() < 5; pn++) {
        vf::rng r(master.next());
        bool is_const_obj = pn % 2 == 1; int mode = (int)((pn / 2) % 7); bool suspend = (pn / 14) % 2 == 1;
        if (is_const_obj && mode == 6) mode = 0;
        if (mode == 4) suspend = false; // join() blocks this thread: synchronous completion only
        std::string desc = std::string(is_const_obj ? "async<const counted&> / " : "async<int&> / ") + mn[mode] + (suspend ? " / suspended, finished later" : " / immediate");
        vf::set_crash_ctx(R.prop.c_str(), "async_reference_results", o.seed, pn, desc.c_str());
        auto Xp = std::make_unique<c4ref_ctx>();
        c4ref_ctx &X = *Xp;
        const void *seen = nullptr; int val = -1; std::string err;
        {
            std::unique_ptr<cocls::future<int &>> fi; std::unique_ptr<cocls::future<const tracked &>> fc;
            auto finish = [&] { if (suspend) X.open(); };
            if (mode == 3) {
                if (is_const_obj) c4cref_driver(X, suspend, seen, val).detach(); else c4ref_driver(X, suspend, seen, val).detach();
                finish();
            } else if (mode == 4) {
                // join() returns by value (a copy of the referenced object): only the value can be compared
                if (is_const_obj) { tracked v = c4cref_body(X, false).join(); seen = &X.obj; val = v.ok() ? (int)v.id : -1; }
                else { int v = c4ref_body(X, false).join(); seen = &X.target; val = v; }
            } else if (is_const_obj) {
                if (mode == 0) fc.reset(new cocls::future<const tracked &>(c4cref_body(X, suspend).start()));
                else if (mode == 1) fc.reset(new cocls::future<const tracked &>(c4cref_body(X, suspend)));
                else if (mode == 2) { fc = std::make_unique<cocls::future<const tracked &>>(); if (!c4cref_body(X, suspend).start(fc->get_promise())) err = "start(promise) refused"; }
                else fc.reset(new cocls::future<const tracked &>(pool.run(c4cref_body(X, suspend))));
                if (mode == 5 && suspend) { unsigned sp = 0; while (X.body_runs == 0 && ++sp < 2000000) vf::cpu_relax(); }
                finish();
                fc->sync();
                try { const tracked &v = fc->value(); seen = &v; val = v.ok() ? (int)v.id : -1; } catch (...) { err = "reference result: unexpected exception"; }
            } else {
                if (mode == 0) fi.reset(new cocls::future<int &>(c4ref_body(X, suspend).start()));
                else if (mode == 1) fi.reset(new cocls::future<int &>(c4ref_body(X, suspend)));
                else if (mode == 2) { fi = std::make_unique<cocls::future<int &>>(); if (!c4ref_body(X, suspend).start(fi->get_promise())) err = "start(promise) refused"; }
                else if (mode == 5) fi.reset(new cocls::future<int &>(pool.run(c4ref_body(X, suspend))));
                else fi.reset(new cocls::future<int &>(c4ref_outer(X, suspend).start()));
                if (mode == 5 && suspend) { unsigned sp = 0; while (X.body_runs == 0 && ++sp < 2000000) vf::cpu_relax(); }
                finish();
                fi->sync();
                try { int &v = fi->value(); seen = &v; val = v; } catch (...) { err = "reference result: unexpected exception"; }
            }
        }
        R.cases++;
        const void *want = is_const_obj ? (const void *)&X.obj : (const void *)&X.target;
        int wantval = is_const_obj ? 99 : 7;
        if (err.empty() && seen != want) err = "the bound party received a reference to another object than the one named by co_return (a copy that does not outlive the call)";
        if (err.empty() && val != wantval) err = "referenced object holds " + std::to_string(val) + " instead of " + std::to_string(wantval);
        if (err.empty() && X.body_runs != 1) err = "body ran " + std::to_string(X.body_runs) + " times";
        if (!err.empty()) { R.violation("monitor:async|async_reference_results", err, vf::jobj().kv("program", (unsigned long long)pn).kv("desc", desc).str()); (void)Xp.release(); continue; }
        R.nontrivial_cases++;
        R.sig(desc);
        R.cls("reference_results_with_identity_checked");
        if (R.samples.size() < 2) R.sample(vf::jobj().kv("program", desc).kv("result", "address of the received reference == address of the object named by co_return").str());
        (void)r;
    }
}

// ---------------------------------------------------------------------------------------------
// Bound parties and waiters that only the coroutine frame keeps alive. The library resolves the bound future (releasing blocked
// threads and callback awaiters) BEFORE it destroys the finished frame; a program may therefore let the frame own the party:
//   FO_CALLBACK      a heap job object embeds a call_fn_future_awaiter (future + completion callback); the frame holds the last
//                    shared_ptr to the job. The callback must run exactly once, with the result, while the job is alive.
//   FO_BOUND_FUTURE  the job embeds the future the coroutine is bound to (start(promise)); when the frame lets the job go the
//                    future must already hold the result.
//   FO_THREAD_WAITER an argument of the coroutine owns a thread that is blocked in sync() on the coroutine's own result and joins it on
//                    destruction: the waiter must have been released by the time the frame is torn down (otherwise: deadlock).
enum { FO_CALLBACK = 0, FO_BOUND_FUTURE, FO_THREAD_WAITER, FO_NKINDS };
inline const char *fo_name(int k) { static const char *n[] = {"job with callback awaiter owned by the frame", "job with the bound future owned by the frame", "frame-owned thread blocked on the own result"}; return n[k]; }

struct fo_out {
    outcome seen, at_destruction;
    std::atomic<int> cb_calls{0}, cb_on_dead_job{0}, job_destroyed{0}, pending_at_destruction{0}, waiter_entered{0}, waiter_released{0};
};
template <typename T> struct fo_sink {
    fo_out *out = nullptr;
    uint64_t canary = 0xC0FFEE11;
    cocls::suspend_point<void> on_done(cocls::future<T> &f) noexcept {
        if (canary != 0xC0FFEE11) { out->cb_on_dead_job.fetch_add(1); return {}; }
        out->seen = read_future(f, nullptr, 0);
        out->cb_calls.fetch_add(1);
        return {};
    }
};
template <typename T> struct fo_job {
    fo_sink<T> sink;
    cocls::call_fn_future_awaiter<&fo_sink<T>::on_done> aw{sink};
    cocls::future<T> result;
    bool result_bound = false;
    tracked guard{55};
    explicit fo_job(fo_out *o) { sink.out = o; }
    ~fo_job() {
        if (result_bound) {
            if (!result.ready()) { sink.out->pending_at_destruction.fetch_add(1); result.sync(); } // sync(): a pending future must not be destroyed; a lost result blocks here (watchdog)
            sink.out->at_destruction = read_future(result, nullptr, 0);
        }
        sink.canary = 0;
        sink.out->job_destroyed.fetch_add(1);
    }
};
struct fo_joining_thread { // passed as a coroutine ARGUMENT: arguments are destroyed with the frame (locals already at the end of the body)
    std::thread t;
    fo_joining_thread() = default;
    fo_joining_thread(fo_joining_thread &&) = default;
    ~fo_joining_thread() { if (t.joinable()) t.join(); }
};

template <typename T> cocls::async<T> fo_body(c4_ctx &X, std::shared_ptr<fo_job<T>> self, fo_out *out, cocls::future<T> *own_result, int kind, fo_joining_thread waiter) {
    X.body_runs[0].fetch_add(1, std::memory_order_relaxed);
    tracked local(8);
    if (kind == FO_THREAD_WAITER) { // the thread is joined when the frame (its arguments) is destroyed
        waiter.t = std::thread([out, own_result] { out->waiter_entered.store(1, std::memory_order_release); own_result->sync(); out->waiter_released.store(1, std::memory_order_release); });
        while (!out->waiter_entered.load(std::memory_order_acquire)) std::this_thread::yield();
        for (int i = 0; i < 30000; i++) vf::cpu_relax(); // let it really block (a late waiter is a legal but less interesting case)
    }
    if (X.completion >= AC_SUSPEND_VALUE) { bool hv = co_await X.gate.has_value(); (void)hv; }
    if (!local.ok() || (self && !self->guard.ok())) throw vf::test_exc{-77};
    X.body_done[0].fetch_add(1, std::memory_order_relaxed);
    if (X.throw_level == 0) throw vf::test_exc{0};
    if constexpr (std::is_void_v<T>) co_return; else co_return c4_value<T>(X.base);
}

template <typename T>
void frame_owned_program(const vf::opts &o, vf::report &R, uint64_t pn, vf::rng &r, int kind, int completion) {
    auto Xp = std::make_unique<c4_ctx>();
    c4_ctx &X = *Xp;
    X.depth = 1; X.completion = completion;
    bool throws = completion == AC_THROW || completion == AC_SUSPEND_THROW, suspends = completion >= AC_SUSPEND_VALUE;
    X.throw_level = throws ? 0 : -1;
    bool other_thread = suspends && r.chance(1, 2);
    std::string desc = std::string(ftype_name<T>()) + " / " + fo_name(kind) + " / " + ac_name(completion) + (suspends ? (other_thread ? " / finished by another thread" : " / finished by the same thread") : "");
    vf::set_crash_ctx(R.prop.c_str(), "frame_owned_parties", o.seed, pn, desc.c_str());
    long live0 = tracked::live.load(), bad0 = tracked::bad.load();
    auto outp = std::make_unique<fo_out>();
    fo_out &out = *outp;
    std::string err;
    outcome fut_seen; fut_seen.state = PS_PENDING;
    {
        std::unique_ptr<cocls::future<T>> fut;
        if (kind == FO_THREAD_WAITER) {
            fut = std::make_unique<cocls::future<T>>();
            if (!fo_body<T>(X, nullptr, &out, fut.get(), kind, fo_joining_thread()).start(fut->get_promise())) err = "start(promise) reported false on an unclaimed promise";
        } else {
            auto job = std::make_shared<fo_job<T>>(&out);
            fo_job<T> *raw = job.get();
            if (kind == FO_CALLBACK) raw->aw << [&]() -> cocls::future<T> { return fo_body<T>(X, job, &out, nullptr, kind, fo_joining_thread()).start(); };
            else { raw->result_bound = true; if (!fo_body<T>(X, job, &out, nullptr, kind, fo_joining_thread()).start(raw->result.get_promise())) err = "start(promise) reported false on an unclaimed promise"; }
            job.reset(); // from here on only the frame (if it still exists) keeps the job alive
            if (suspends && out.job_destroyed.load() != 0 && err.empty()) err = "job destroyed although the coroutine that owns it is still suspended";
        }
        if (suspends) {
            if (other_thread) { std::thread h([&X] { for (int i = 0; i < 200; i++) vf::cpu_relax(); X.open_gate(); }); h.join(); }
            else X.open_gate();
        }
        if (fut) { fut->sync(); fut_seen = read_future(*fut, nullptr, 0); }
    }
    R.cases++;
    outcome expect;
    if (throws) { expect.state = PS_EXC; expect.code = 0; } else { expect.state = PS_VALUE; expect.val = std::is_void_v<T> ? 0 : X.base; }
    if (err.empty() && X.body_runs[0].load() != 1) err = "body ran " + std::to_string(X.body_runs[0].load()) + " times";
    if (err.empty() && kind != FO_THREAD_WAITER && out.job_destroyed.load() != 1) err = "job object owned by the frame destroyed " + std::to_string(out.job_destroyed.load()) + " times";
    if (err.empty() && kind == FO_CALLBACK) {
        if (out.cb_on_dead_job.load()) err = "completion callback invoked after the frame had already released (destroyed) the object it lives in";
        else if (out.cb_calls.load() != 1) err = "completion callback ran " + std::to_string(out.cb_calls.load()) + " times";
        else if (!(out.seen == expect)) err = "callback received " + out.seen.str() + ", the body produced " + expect.str();
    }
    if (err.empty() && kind == FO_BOUND_FUTURE) {
        if (out.pending_at_destruction.load()) err = "bound future still pending when the finished frame released it (frame destroyed before the result was delivered)";
        else if (!(out.at_destruction == expect)) err = "bound future held " + out.at_destruction.str() + ", the body produced " + expect.str();
    }
    if (err.empty() && kind == FO_THREAD_WAITER) {
        if (!out.waiter_released.load()) err = "thread blocked on the result was not released";
        else if (!(fut_seen == expect)) err = "bound party received " + fut_seen.str() + ", the body produced " + expect.str();
    }
    if (err.empty() && tracked::live.load() != live0) err = "frame contents / owned job not destroyed exactly once: live delta " + std::to_string(tracked::live.load() - live0);
    if (err.empty() && tracked::bad.load() != bad0) err = "frame local or job destroyed twice or used after destruction";
    if (!err.empty()) {
        R.violation("monitor:async|frame_owned_parties", err, vf::jobj().kv("scenario", "frame_owned_parties").kv("seed", (unsigned long long)o.seed).kv("program", (unsigned long long)pn).kv("desc", desc)
                        .kv("expected", expect.str()).kv("callback_calls", out.cb_calls.load()).kv("job_destroyed", out.job_destroyed.load()).str());
        (void)Xp.release(); (void)outp.release();
        return;
    }
    R.nontrivial_cases++;
    R.sig(desc);
    R.cls(std::string("party: ") + fo_name(kind)); R.cls(std::string("completion: ") + ac_name(completion));
    if (R.samples.size() < 4) R.sample(vf::jobj().kv("program", desc).kv("observed", kind == FO_CALLBACK ? out.seen.str() : kind == FO_BOUND_FUTURE ? out.at_destruction.str() : fut_seen.str()).str());
}

inline void frame_owned_parties(const vf::opts &o, vf::report &R, uint64_t programs) {
    vf::rng master(vf::mix(o.seed, 0x204));
    for (uint64_t pn = 0; pn < programs && R.nviol() < 5; pn++) {
        vf::rng r(master.next());
        int kind = (int)(pn % FO_NKINDS), completion = (int)((pn / FO_NKINDS) % 4);
        switch ((pn / (FO_NKINDS * 4)) % 4) {
        case 0: frame_owned_program<void>(o, R, pn, r, kind, completion); break;
        case 1: frame_owned_program<int>(o, R, pn, r, kind, completion); break;
        case 2: frame_owned_program<tracked_mo>(o, R, pn, r, kind, completion); break;
        default: frame_owned_program<tracked>(o, R, pn, r, kind, completion); break;
        }
    }
}

// ---------------------------------------------------------------------------------------------
// start(promise) racing with another thread that invokes the same promise: exactly one of them claims it. Either the coroutine is
// started (body runs once, its result reaches the future, the competing call reports false) or it stays unstarted (start reports
// false, the body never runs, the future holds the competitor's value); the frame and its arguments are destroyed exactly once.
struct c4r_round {
    cocls::future<int> fut;
    std::optional<cocls::promise<int>> prom;
    std::optional<cocls::async<int>> coro;
    std::atomic<int> body_runs{0};
    int start_ok = -1, call_ok = -1;
};
inline cocls::async<int> c4r_body(c4r_round &X, tracked arg) {
    X.body_runs.fetch_add(1, std::memory_order_relaxed);
    co_return (int)arg.id;
}
inline void async_start_race(const vf::opts &o, vf::report &R, vf::team &T, uint64_t rounds) {
    using namespace cocls::verif;
    static const int sites[] = {prom_claim_pre, prom_claim_post, fut_set_post, aw_chain_pre, fin_pre_resolve};
    vf::rng master(vf::mix(o.seed, 0x104));
    for (uint64_t rn = 0; rn < rounds && R.nviol() < 5; rn++) {
        uint64_t rseed = master.next();
        vf::rng r(rseed);
        long live0 = tracked::live.load(), bad0 = tracked::bad.load();
        auto Xp = std::make_unique<c4r_round>();
        c4r_round &X = *Xp;
        X.prom.emplace(X.fut.get_promise());
        X.coro.emplace(c4r_body(X, tracked(777)));
        int how = (int)r.below(3);
        std::string plan = T.plan(r, sites, 5);
        std::string desc = std::string("start(promise) vs ") + (how == 0 ? "value" : how == 1 ? "exception" : "drop");
        vf::set_crash_ctx(R.prop.c_str(), "async_start_race", o.seed, rn, (desc + "; " + plan).c_str());
        T.round([&](int tid) {
            vf::start_offset(rseed, tid);
            if (tid == 0) X.start_ok = (bool)X.coro->start(*X.prom);
            else if (tid == 1) X.call_ok = how == 0 ? (bool)(*X.prom)(5) : how == 1 ? (bool)(*X.prom)(vf::make_exc(9)) : (bool)(*X.prom)(cocls::drop);
        });
        X.coro.reset(); // an unstarted coroutine is destroyed here
        X.prom.reset();
        R.cases++;
        std::string err;
        outcome got; got.state = PS_PENDING;
        if (X.fut.ready()) got = read_future(X.fut, nullptr, 0);
        if (X.start_ok + X.call_ok != 1) err = "start(promise) reported " + std::to_string(X.start_ok) + " and the competing call reported " + std::to_string(X.call_ok) + " (exactly one must claim the promise)";
        else if (X.start_ok) {
            if (X.body_runs.load() != 1) err = "coroutine started but its body ran " + std::to_string(X.body_runs.load()) + " times";
            else if (!(got.state == PS_VALUE && got.val == 777)) err = "coroutine started but the future holds " + got.str();
        } else {
            outcome want; if (how == 0) { want.state = PS_VALUE; want.val = 5; } else if (how == 1) { want.state = PS_EXC; want.code = 9; } else want.state = PS_CANCELED;
            if (X.body_runs.load() != 0) err = "start(promise) reported false (promise already claimed) but the body ran";
            else if (!(got == want)) err = "competitor won but the future holds " + got.str();
        }
        if (err.empty() && (tracked::live.load() != live0 || tracked::bad.load() != bad0)) err = "coroutine argument not destroyed exactly once";
        if (!err.empty()) { R.violation("monitor:async|async_start_race", err, vf::jobj().kv("round", (unsigned long long)rn).kv("seed", (unsigned long long)o.seed).kv("desc", desc).kv("stall_plan", plan).kv("future", got.str()).kv("body_runs", X.body_runs.load()).str()); if (!X.fut.ready()) (void)Xp.release(); continue; }
        R.nontrivial_cases++;
        R.sig(desc + (X.start_ok ? " coroutine-won" : " call-won") + (T.stalls_fired_last_round() ? " S" : ""));
        R.cls(X.start_ok ? "coroutine_won_the_promise" : "competing_call_won_the_promise");
        if (R.samples.size() < 2) R.sample(vf::jobj().kv("round", desc).kv("start_reported", X.start_ok).kv("call_reported", X.call_ok).kv("future", got.str()).str());
    }
}

} // namespace scn
