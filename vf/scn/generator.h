// scenarios for cocls::generator and generator_aggregator (C13, C14; the cross-thread part also feeds the C03 TSan workload)
#pragma once
#include <vf/team.h>
#include <vf/payload.h>
#include <cocls/generator.h>
#include <cocls/generator_aggregator.h>
#include <cocls/future.h>
#include <cocls/async.h>
#include <memory>
#include <optional>

namespace scn {
using namespace cocls::verif;
using vf::tracked;

enum { GO_YIELD = 0, GO_AWAIT_READY, GO_AWAIT_PENDING, GO_THROW, GO_RETURN };
struct g_op { int kind; int arg; };
enum { GS_NEXT = 0, GS_ITER, GS_CALL_WAIT, GS_CALL_AWAIT, GS_AWAIT_NEXT, GS_NSTYLES };
inline const char *gs_name(int s) { static const char *n[] = {"next()+value()", "iterator", "call->future->wait", "call->future->co_await", "co_await next()"}; return n[s]; }

constexpr int G_NPEND = 6;
struct g_world {
    std::vector<std::vector<g_op>> scripts;       // one per source generator
    cocls::future<void> pend[G_NPEND];
    std::optional<cocls::promise<void>> pprom[G_NPEND];
    std::atomic<int> await_started[G_NPEND];
    std::atomic<int> consumer_done{0};
    std::atomic<int> body_started[8], body_ended[8];
    std::vector<int> seen_args[8];                // generator with argument: what each body saw
    // consumer observations
    std::vector<long> got;                        // values; -1000-code = exception(code); -1 = end marker
    std::vector<int> styles_used;
    std::vector<int> args_sent;
    int max_items = 1000;
    g_world() { for (int i = 0; i < G_NPEND; i++) { pprom[i].emplace(pend[i].get_promise()); await_started[i] = 0; } for (auto &b : body_started) b = 0; for (auto &b : body_ended) b = 0; }
    void resolve_all() { for (int i = 0; i < G_NPEND; i++) if (pprom[i]) { (*pprom[i])(); } }
};

// ---- scripted generator bodies
inline cocls::generator<int> g_body(g_world &W, int src) {
    W.body_started[src].fetch_add(1, std::memory_order_relaxed);
    tracked guard(900 + (uint64_t)src); // must be destroyed exactly once, also when the generator is dropped at a yield
    const std::vector<g_op> &sc = W.scripts[(size_t)src];
    for (size_t i = 0; i < sc.size(); i++) {
        const g_op op = sc[i];
        if (op.kind == GO_YIELD) { int yv = op.arg; co_yield yv; }
        else if (op.kind == GO_AWAIT_READY) { cocls::future<int> f = cocls::future<int>::set_value(5); int v = co_await f; (void)v; }
        else if (op.kind == GO_AWAIT_PENDING) { W.await_started[op.arg].store(1, std::memory_order_release); bool hv = co_await W.pend[op.arg].has_value(); (void)hv; }
        else if (op.kind == GO_THROW) { if (op.arg >= 900) throw cocls::await_canceled_exception(); throw vf::test_exc{op.arg}; }
        else break;
    }
    if (!guard.ok()) throw vf::test_exc{-5};
    W.body_ended[src].fetch_add(1, std::memory_order_relaxed);
}
inline cocls::generator<int, int> g_body_arg(g_world &W, int src) {
    W.body_started[src].fetch_add(1, std::memory_order_relaxed);
    tracked guard(900 + (uint64_t)src);
    const std::vector<g_op> &sc = W.scripts[(size_t)src];
    int a = co_yield nullptr; // argument of the very first call
    W.seen_args[src].push_back(a);
    for (size_t i = 0; i < sc.size(); i++) {
        const g_op op = sc[i];
        if (op.kind == GO_YIELD) { int yv = op.arg; int x = co_yield yv; W.seen_args[src].push_back(x); }
        else if (op.kind == GO_AWAIT_READY) { cocls::future<int> f = cocls::future<int>::set_value(5); int v = co_await f; (void)v; }
        else if (op.kind == GO_AWAIT_PENDING) { W.await_started[op.arg].store(1, std::memory_order_release); bool hv = co_await W.pend[op.arg].has_value(); (void)hv; }
        else if (op.kind == GO_THROW) { if (op.arg >= 900) throw cocls::await_canceled_exception(); throw vf::test_exc{op.arg}; }
        else break;
    }
    W.body_ended[src].fetch_add(1, std::memory_order_relaxed);
}

// waiting loops of the harness poll politely: after a short spin they sleep, so that a consumer blocked forever inside the library
// leaves every thread in state S and the quiescence watchdog can report the hang within seconds
inline void g_polite_wait(unsigned &spins) { if (++spins < 4000) vf::cpu_relax(); else if (spins < 4300) usleep(100); else usleep(3000); } // long waits sleep almost all the time (hang verdict needs quiet samples)

// ---- consumer: obtains item after item, the access style is chosen per step. The driver is ordinary code (blocking styles are
// not allowed inside coroutines); the two awaiting styles run as a small coroutine per step.
template <bool WithArg, typename Gen>
cocls::async<void> g_async_step(Gen &g, int style, int arg, long &item, std::atomic<int> &done) {
    (void)arg;
    try {
        if (style == GS_CALL_AWAIT) {
            if constexpr (WithArg) { cocls::future<int> f = g(arg); bool hv = co_await f.has_value(); if (hv) item = f.value(); }
            else { cocls::future<int> f = g(); bool hv = co_await f.has_value(); if (hv) item = f.value(); }
        } else {
            bool b;
            if constexpr (WithArg) { b = co_await g.next(arg); } else { b = co_await g.next(); }
            if (b) item = g.value();
        }
    } catch (const vf::test_exc &e) { item = -1000 - e.code; } catch (const cocls::await_canceled_exception &) { item = -1000 - 900; }
    catch (...) { item = -888888; } // an exception the body never threw: mismatch for the oracle
    done.store(1, std::memory_order_release);
}

template <bool WithArg, typename Gen>
void g_consume(g_world &W, Gen &g, vf::rng r, bool allow_sync, bool helper_resolves) {
    std::optional<typename Gen::iterator> it;
    int nextarg = 100;
    int next_pending = 0;
    for (int step = 0; step < W.max_items; step++) {
        int style;
        do { style = (int)r.below(GS_NSTYLES); } while ((WithArg && style == GS_ITER) || (!allow_sync && (style == GS_NEXT || style == GS_ITER || style == GS_CALL_WAIT)));
        W.styles_used.push_back(style);
        int arg = nextarg++;
        if (WithArg) W.args_sent.push_back(arg);
        long item = -1; // end marker unless a value/exception is observed
        if (style == GS_CALL_AWAIT || style == GS_AWAIT_NEXT) {
            std::atomic<int> done{0};
            g_async_step<WithArg>(g, style, arg, item, done).detach();
            // suspended on a pending await of the body: completed by the helper thread, or by this (the consumer's) thread
            unsigned spins = 0;
            while (!done.load(std::memory_order_acquire)) {
                if (helper_resolves) g_polite_wait(spins);
                else if (next_pending < G_NPEND) (*W.pprom[next_pending++])();
                else { break; }
            }
            if (!done.load(std::memory_order_acquire)) { W.got.push_back(-999999); break; } // never completed: reported by the oracle
        } else {
            try {
                switch (style) {
                case GS_NEXT: {
                    bool b;
                    if (r.chance(1, 3)) {
                        // the object returned by next() is kept and asked again: the answer for THIS step is cached in it, asking twice
                        // must neither step the generator again nor change the answer or the current value
                        auto n = [&] { if constexpr (WithArg) return g.next(arg); else return g.next(); }();
                        b = (bool)n;
                        if (b) {
                            item = g.value();
                            bool b2 = (bool)n, b3 = !n;
                            if (!b2 || b3) item = -777771;                 // "available" turned into "not available"
                            else if (g.value() != item) item = -777772;   // the generator was stepped again without a new next()
                        } else if ((bool)n) item = -777773;
                    } else {
                        if constexpr (WithArg) b = g.next(arg); else b = g.next();
                        if (b) item = g.value();
                    }
                    break;
                }
                case GS_ITER:
                    if constexpr (!WithArg) {
                        if (!it) it.emplace(g.begin()); else ++(*it);
                        if (*it != g.end()) item = **it;
                    }
                    break;
                default: {
                    if constexpr (WithArg) { cocls::future<int> f = g(arg); if (f.has_value()) item = *f; }
                    else { cocls::future<int> f = g(); if (f.has_value()) item = *f; }
                    break;
                }
                }
            } catch (const vf::test_exc &e) { item = -1000 - e.code; } catch (const cocls::await_canceled_exception &) { item = -1000 - 900; }
            catch (...) { item = -888888; }
        }
        W.got.push_back(item);
        if (item < 0) break; // first end-of-sequence / exception: stop calling (what happens afterwards is not part of the statement)
    }
    W.consumer_done.store(1, std::memory_order_release);
}

// consumer that is ONE coroutine for the whole sequence: its thread's ready queue stays active between the steps, so anything the
// library defers through that queue is still outstanding when the next call (and the next argument) arrives. Awaiting styles only.
template <bool WithArg, typename Gen>
cocls::async<void> g_consume_coro(g_world &W, Gen &g, vf::rng r, bool sync_too = false) {
    int nextarg = 100;
    for (int step = 0; step < W.max_items; step++) {
        // sync_too: the body never waits for anything, so next()+value() is legitimate inside a coroutine as well (nothing blocks)
        int style = (sync_too && r.chance(1, 3)) ? GS_NEXT : r.chance(1, 2) ? GS_CALL_AWAIT : GS_AWAIT_NEXT;
        W.styles_used.push_back(style);
        int arg = nextarg++;
        if (WithArg) W.args_sent.push_back(arg);
        long item = -1;
        try {
            if (style == GS_NEXT) {
                bool b;
                if constexpr (WithArg) b = g.next(arg); else b = g.next();
                if (b) item = g.value();
            } else if (style == GS_CALL_AWAIT) {
                if constexpr (WithArg) { cocls::future<int> f = g(arg); bool hv = co_await f.has_value(); if (hv) item = f.value(); }
                else { cocls::future<int> f = g(); bool hv = co_await f.has_value(); if (hv) item = f.value(); }
            } else {
                bool b;
                if constexpr (WithArg) { b = co_await g.next(arg); } else { b = co_await g.next(); }
                if (b) item = g.value();
            }
        } catch (const vf::test_exc &e) { item = -1000 - e.code; } catch (const cocls::await_canceled_exception &) { item = -1000 - 900; }
        catch (...) { item = -888888; }
        W.got.push_back(item);
        if (item < 0) break;
        if (r.chance(1, 4)) co_await cocls::pause();
    }
    W.consumer_done.store(1, std::memory_order_release);
}
// ordinary code that starts the consumer coroutine and (single-thread programs) completes the pending awaits itself
template <bool WithArg, typename Gen>
void g_consume_by_coro(g_world &W, Gen &g, vf::rng r, bool helper_resolves, bool sync_too = false) {
    g_consume_coro<WithArg>(W, g, r, sync_too).detach();
    unsigned spins = 0; int next_pending = 0;
    while (!W.consumer_done.load(std::memory_order_acquire)) {
        if (helper_resolves) g_polite_wait(spins);
        else if (next_pending < G_NPEND) (*W.pprom[next_pending++])();
        else break;
    }
}

// whole-sequence walks (no style mixing): range-for, and a post-increment walk (operator++(int) returns a holder of the current value
// and advances in the same call). Only used for scripts that do not throw: with post-increment the advance that surfaces the
// exception also swallows the holder of the previous value - one operation, not a defect.
inline void g_consume_walk(g_world &W, cocls::generator<int> &g, int variant) {
    W.styles_used.push_back(variant == 0 ? GS_ITER : GS_ITER);
    try {
        if (variant == 0) { for (int &v : g) W.got.push_back(v); }
        else { for (auto it = g.begin(); it != g.end();) { auto z = it++; W.got.push_back(z._v); } } // holder member read directly: operator* of the holder does not compile (const method returning int&)
        W.got.push_back(-1);
    } catch (const vf::test_exc &e) { W.got.push_back(-1000 - e.code); } catch (const cocls::await_canceled_exception &) { W.got.push_back(-1000 - 900); }
    catch (...) { W.got.push_back(-888888); }
    W.consumer_done.store(1, std::memory_order_release);
}

// resolver loop run by both team threads: opens the pending futures in order once the body started to await them
inline void g_resolver(g_world &W, uint64_t seed, int tid) {
    for (int k = 0; k < G_NPEND; k++) {
        bool eager = vf::mix(seed, 40 + (uint64_t)k) % 4 == 0; // sometimes resolve before it is awaited (then it is an "await ready")
        unsigned spins = 0;
        while (!eager && !W.await_started[k].load(std::memory_order_acquire)) {
            if (W.consumer_done.load(std::memory_order_acquire)) return;
            g_polite_wait(spins);
        }
        unsigned d = (unsigned)(vf::mix(seed, 70 + (uint64_t)k + (uint64_t)tid * 13) % 300);
        for (unsigned i = 0; i < d; i++) vf::cpu_relax();
        if (W.consumer_done.load(std::memory_order_acquire)) return;
        (*W.pprom[k])();
    }
    unsigned spins2 = 0;
    while (!W.consumer_done.load(std::memory_order_acquire)) g_polite_wait(spins2);
}

inline std::vector<g_op> g_random_script(vf::rng &r, int src, bool allow_pending, int &pend_next, bool infinite) {
    std::vector<g_op> sc;
    int len = infinite ? 40 : (int)r.below(9);
    int yi = 0;
    for (int i = 0; i < len; i++) {
        uint32_t x = r.below(100);
        if (x < 55 || infinite) { sc.push_back({GO_YIELD, src * 1000 + (++yi)}); if (infinite && r.chance(1, 6)) sc.push_back({GO_AWAIT_READY, 0}); }
        else if (x < 70) sc.push_back({GO_AWAIT_READY, 0});
        else if (x < 88 && allow_pending && pend_next < G_NPEND) sc.push_back({GO_AWAIT_PENDING, pend_next++});
        else if (x < 93) { sc.push_back({GO_THROW, r.chance(1, 4) ? 900 : 10 + src}); break; } // 900: the body lets the library's await_canceled_exception escape
        else if (x < 96) { sc.push_back({GO_RETURN, 0}); break; }
    }
    return sc;
}
inline std::vector<long> g_expected(const std::vector<g_op> &sc) {
    std::vector<long> e;
    for (auto &op : sc) {
        if (op.kind == GO_YIELD) e.push_back(op.arg);
        else if (op.kind == GO_THROW) { e.push_back(-1000 - op.arg); return e; }
        else if (op.kind == GO_RETURN) break;
    }
    e.push_back(-1);
    return e;
}
inline std::string g_script_str(const std::vector<g_op> &sc) {
    std::string s;
    for (auto &op : sc) s += op.kind == GO_YIELD ? "y" + std::to_string(op.arg) + " " : op.kind == GO_AWAIT_READY ? "ar " : op.kind == GO_AWAIT_PENDING ? "ap" + std::to_string(op.arg) + " " : op.kind == GO_THROW ? "throw " : "ret ";
    return s;
}
inline std::string g_got_str(const std::vector<long> &v) { std::string s; for (long x : v) s += (x == -1 ? std::string("END") : x <= -1000 ? "EXC" + std::to_string(-1000 - x) : std::to_string(x)) + " "; return s; }

// ---------------------------------------------------------------------------------------------
// C13: one generator, every access style
inline void generator_programs(const vf::opts &o, vf::report &R, vf::team &T, uint64_t programs) {
    static const int sites[] = {gen_yield_suspend, gen_sync_pre_wait, gen_unblock_sync, aw_chain_pre, coaw_suspend, aw_subchk_post, prom_claim_pre};
    vf::rng master(vf::mix(o.seed, 0x13));
    for (uint64_t pn = 0; pn < programs && R.nviol() < 5; pn++) {
        uint64_t pseed = master.next();
        vf::rng r(pseed);
        long live0 = tracked::live.load(), bad0 = tracked::bad.load();
        auto Wp = std::make_unique<g_world>();
        g_world &W = *Wp;
        bool with_arg = r.chance(1, 3);
        bool mt = T.n >= 2 && r.chance(2, 3);       // pending awaits need a second thread when a synchronous style blocks
        int pend_next = 0;
        W.scripts.push_back(g_random_script(r, 1, true, pend_next, false));
        bool has_pending = pend_next > 0;
        int drop_mode = (int)r.below(8); // 0: drop before first activation, 1: drop parked at a yield after k items, else: consume to the end
        if (drop_mode == 1) W.max_items = 1 + (int)r.below(4);
        // style constraints: without a helper thread, pending awaits can only be completed by the consumer thread => async styles only
        bool allow_sync = mt || !has_pending;
        bool script_throws = false; for (auto &op : W.scripts[0]) if (op.kind == GO_THROW) script_throws = true;
        int walk = (!with_arg && allow_sync && drop_mode >= 2 && !script_throws && r.chance(1, 5)) ? 1 + (int)r.below(2) : 0; // 1 range-for, 2 post-increment walk
        bool coro_consumer = !walk && r.chance(1, 4); // the consumer is one coroutine for the whole sequence
        std::string desc = std::string(walk == 1 ? "[range-for walk] " : walk == 2 ? "[post-increment walk] " : coro_consumer ? "[consumer is one coroutine] " : "") + std::string(with_arg ? "generator<int,int> " : "generator<int> ") + "[" + g_script_str(W.scripts[0]) + "] " + (mt ? "pending awaits completed by either thread" : "single thread") + (drop_mode == 0 ? " dropped before start" : drop_mode == 1 ? " dropped at a yield" : "");
        std::string plan = T.plan(r, sites, (int)(sizeof sites / sizeof sites[0]));
        vf::set_crash_ctx(R.prop.c_str(), "generator_programs", o.seed, pn, desc.c_str());
        std::string err;
        {
            std::optional<cocls::generator<int>> g0; std::optional<cocls::generator<int, int>> g1;
            if (with_arg) g1.emplace(g_body_arg(W, 0)); else g0.emplace(g_body(W, 0));
            if (drop_mode == 0) { g0.reset(); g1.reset(); W.consumer_done.store(1); }
            else {
                vf::rng cr(vf::mix(pseed, 5));
                if (mt) {
                    T.round([&](int tid) {
                        if (tid == 0) { if (walk) g_consume_walk(W, *g0, walk - 1); else if (coro_consumer) { if (with_arg) g_consume_by_coro<true>(W, *g1, cr, true, !has_pending); else g_consume_by_coro<false>(W, *g0, cr, true, !has_pending); } else if (with_arg) g_consume<true>(W, *g1, cr, allow_sync, true); else g_consume<false>(W, *g0, cr, allow_sync, true); }
                        else if (tid == 1) g_resolver(W, pseed, tid);
                    });
                } else {
                    if (walk) g_consume_walk(W, *g0, walk - 1); else if (coro_consumer) { if (with_arg) g_consume_by_coro<true>(W, *g1, cr, false, !has_pending); else g_consume_by_coro<false>(W, *g0, cr, false, !has_pending); } else if (with_arg) g_consume<true>(W, *g1, cr, allow_sync, false); else g_consume<false>(W, *g0, cr, allow_sync, false);
                }
                if (!W.consumer_done.load()) err = "consumer never completed although every awaited operation was resolved";
                // drop the generator now (parked at a yield, or finished)
                if (err.empty()) { g0.reset(); g1.reset(); }
            }
            if (!err.empty()) { (void)Wp.release(); }
        }
        R.cases++;
        if (err.empty()) {
            std::vector<long> exp = g_expected(W.scripts[0]);
            if (drop_mode == 0) { if (!W.got.empty() || W.body_started[0].load()) err = "generator dropped before its first activation ran its body"; }
            else {
                std::vector<long> e2 = exp;
                if ((int)e2.size() > W.max_items) e2.resize((size_t)W.max_items);
                if (W.got != e2) err = "consumer observed [" + g_got_str(W.got) + "] but the body yields [" + g_got_str(e2) + "]";
                if (err.empty() && with_arg) {
                    // the body must have received exactly the arguments of the calls that resumed it, in order
                    std::vector<int> want(W.args_sent.begin(), W.args_sent.begin() + (long)std::min(W.args_sent.size(), W.seen_args[0].size()));
                    if (W.seen_args[0] != want) err = "generator body saw other arguments than the calls passed";
                    else if (W.seen_args[0].size() != W.got.size()) err = "generator body was resumed " + std::to_string(W.seen_args[0].size()) + " times with an argument but the consumer made " + std::to_string(W.got.size()) + " calls";
                    size_t resumes = W.got.size(); // every observed item corresponds to one call; the call that ended the body delivered its argument too unless nothing was yielded before
                    (void)resumes;
                }
            }
            if (err.empty() && tracked::live.load() != live0) err = "generator locals not destroyed exactly once (live delta " + std::to_string(tracked::live.load() - live0) + ")";
            if (err.empty() && tracked::bad.load() != bad0) err = "generator local destroyed twice";
        }
        if (!err.empty()) {
            std::string st; for (int s : W.styles_used) st += std::string(gs_name(s)) + ", ";
            R.violation("monitor:sequence|generator_programs", err, vf::jobj().kv("program", (unsigned long long)pn).kv("seed", (unsigned long long)o.seed).kv("desc", desc).kv("styles", st).kv("observed", g_got_str(W.got)).kv("stall_plan", plan).str());
            continue;
        }
        bool nontrivial = W.got.size() >= 2;
        if (nontrivial) R.nontrivial_cases++;
        std::string st; for (int s : W.styles_used) st += (char)('0' + s);
        R.sig(desc + " s" + st, nontrivial);
        for (int s : W.styles_used) R.cls(std::string("style: ") + gs_name(s));
        if (mt && has_pending) R.cls("programs_with_cross_thread_completion");
        if (walk) R.cls(walk == 1 ? "whole_sequence_range_for" : "whole_sequence_post_increment_walk");
        if (coro_consumer) R.cls("consumer_is_one_coroutine");
        if (drop_mode <= 1) R.cls("programs_dropping_the_generator_early");
        if (R.samples.size() < 4 && W.got.size() > 3) { std::string sn; for (int s : W.styles_used) sn += std::string(gs_name(s)) + ", "; R.sample(vf::jobj().kv("program", desc).kv("styles", sn).kv("observed", g_got_str(W.got)).str()); }
    }
}

// ---------------------------------------------------------------------------------------------
// C14: aggregator of 0-5 scripted sources
inline void aggregator_programs(const vf::opts &o, vf::report &R, vf::team &T, uint64_t programs) {
    static const int sites[] = {gen_yield_suspend, gen_sync_pre_wait, gen_unblock_sync, q_push_unlocked, q_pop_entry, aw_chain_pre, coaw_suspend, aw_subchk_post};
    vf::rng master(vf::mix(o.seed, 0x14));
    for (uint64_t pn = 0; pn < programs && R.nviol() < 5; pn++) {
        uint64_t pseed = master.next();
        vf::rng r(pseed);
        long live0 = tracked::live.load(), bad0 = tracked::bad.load();
        auto Wp = std::make_unique<g_world>();
        g_world &W = *Wp;
        bool with_arg = r.chance(1, 4);
        bool mt = T.n >= 2 && r.chance(2, 3);
        int nsrc = (int)r.below(6);
        int pend_next = 0;
        bool any_infinite = false;
        for (int s = 0; s < nsrc; s++) {
            bool inf = r.chance(1, 6);
            any_infinite = any_infinite || inf;
            W.scripts.push_back(g_random_script(r, s + 1, true, pend_next, inf));
        }
        bool has_pending = pend_next > 0;
        bool stop_early = any_infinite || r.chance(1, 5);
        if (stop_early) W.max_items = 1 + (int)r.below(12);
        bool allow_sync = mt || !has_pending;
        std::string desc = std::string(with_arg ? "aggregator<int,int> of " : "aggregator<int> of ") + std::to_string(nsrc) + " sources: ";
        for (int s = 0; s < nsrc; s++) desc += "[" + g_script_str(W.scripts[(size_t)s]).substr(0, 60) + "] ";
        desc += mt ? "(two threads)" : "(single thread)";
        bool coro_consumer = r.chance(1, 3); // the consumer is one coroutine for the whole sequence (ready queue active between the calls)
        if (coro_consumer) desc += " [consumer is one coroutine]";
        if (stop_early) desc += " destroyed after " + std::to_string(W.max_items) + " items";
        std::string plan = T.plan(r, sites, (int)(sizeof sites / sizeof sites[0]));
        vf::set_crash_ctx(R.prop.c_str(), "aggregator_programs", o.seed, pn, desc.substr(0, 300).c_str());
        std::string err;
        {
            std::optional<cocls::generator<int>> g0; std::optional<cocls::generator<int, int>> g1;
            if (with_arg) { std::vector<cocls::generator<int, int>> v; for (int s = 0; s < nsrc; s++) v.push_back(g_body_arg(W, s)); g1.emplace(cocls::generator_aggregator(std::move(v))); }
            else { std::vector<cocls::generator<int>> v; for (int s = 0; s < nsrc; s++) v.push_back(g_body(W, s)); g0.emplace(cocls::generator_aggregator(std::move(v))); }
            vf::rng cr(vf::mix(pseed, 5));
            if (mt) {
                T.round([&](int tid) {
                    if (tid == 0) { if (coro_consumer) { if (with_arg) g_consume_by_coro<true>(W, *g1, cr, true, !has_pending); else g_consume_by_coro<false>(W, *g0, cr, true, !has_pending); } else if (with_arg) g_consume<true>(W, *g1, cr, allow_sync, true); else g_consume<false>(W, *g0, cr, allow_sync, true); }
                    else if (tid == 1) g_resolver(W, pseed, tid);
                });
            } else {
                if (coro_consumer) { if (with_arg) g_consume_by_coro<true>(W, *g1, cr, false); else g_consume_by_coro<false>(W, *g0, cr, false); }
                else if (with_arg) g_consume<true>(W, *g1, cr, allow_sync, false); else g_consume<false>(W, *g0, cr, allow_sync, false);
            }
            if (!W.consumer_done.load()) { err = "consumer never completed although every awaited operation was resolved"; (void)Wp.release(); }
            else {
                // Destruction while parked: in-flight asynchronous sources must be waited for. They can only finish when what they await is
                // resolved, so resolve everything first (from ordinary code), then destroy from ordinary code as documented.
                bool inflight_destroy = mt && r.chance(1, 2);
                if (!inflight_destroy) { W.resolve_all(); g0.reset(); g1.reset(); }
                else {
                    // Variant: the aggregate is destroyed (thread 0, ordinary code: blocks) while sources are REALLY in flight - suspended
                    // on operations that thread 1 completes only after the destruction has begun. The destructor must wait for them;
                    // no source frame may be destroyed while it is suspended inside its awaited operation.
                    std::atomic<int> destroying{0};
                    T.round([&](int tid) {
                        if (tid == 0) { destroying.store(1, std::memory_order_release); g0.reset(); g1.reset(); }
                        else if (tid == 1) {
                            unsigned spins = 0;
                            while (!destroying.load(std::memory_order_acquire)) g_polite_wait(spins);
                            for (unsigned i = 0, n = (unsigned)(vf::mix(pseed, 91) % 3000); i < n; i++) vf::cpu_relax();
                            W.resolve_all();
                        }
                    });
                    R.cls("aggregates_destroyed_with_sources_in_flight");
                }
            }
        }
        R.cases++;
        if (err.empty()) {
            // expected per source
            std::vector<std::vector<long>> exp;
            bool any_exc = false; size_t total_vals = 0;
            for (int s = 0; s < nsrc; s++) { exp.push_back(g_expected(W.scripts[(size_t)s])); if (exp.back().back() != -1) any_exc = true; total_vals += exp.back().size() - 1; }
            std::vector<size_t> idx((size_t)nsrc, 0);
            size_t nvals = 0;
            long tail = W.got.empty() ? 0 : W.got.back();
            for (size_t i = 0; i < W.got.size() && err.empty(); i++) {
                long v = W.got[i];
                if (v < 0) { if (i + 1 != W.got.size()) err = "values after the end/exception indication"; break; }
                int s = (int)(v / 1000) - 1;
                if (s < 0 || s >= nsrc) { err = "aggregate yielded " + std::to_string(v) + " which no source produced"; break; }
                if (idx[(size_t)s] >= exp[(size_t)s].size() - 1 || exp[(size_t)s][idx[(size_t)s]] != v) { err = "aggregate yielded " + std::to_string(v) + " out of source order / duplicated (source " + std::to_string(s) + " next expected " + (idx[(size_t)s] < exp[(size_t)s].size() ? std::to_string(exp[(size_t)s][idx[(size_t)s]]) : std::string("nothing")) + ")"; break; }
                idx[(size_t)s]++; nvals++;
            }
            bool consumer_saw_end = !W.got.empty() && tail < 0;
            if (err.empty() && consumer_saw_end) {
                // end (or the exception) only when all sources ended, and then nothing may be missing
                if (nvals != total_vals) err = "aggregate ended after " + std::to_string(nvals) + " values but the sources yield " + std::to_string(total_vals) + " (a source's values were lost)";
                else if (any_exc && tail == -1) err = "a source threw but the aggregate ended without reporting an exception";
                else if (!any_exc && tail != -1) err = "aggregate reported an exception no source threw";
            }
            if (err.empty() && !consumer_saw_end && (int)W.got.size() < W.max_items) err = "consumer stopped without end indication";
            if (err.empty() && with_arg && nsrc > 0) {
                // argument routing: first call -> all sources; call n+1 -> the source whose value call n returned
                std::vector<std::vector<int>> want((size_t)nsrc);
                if (!W.args_sent.empty()) for (int s = 0; s < nsrc; s++) want[(size_t)s].push_back(W.args_sent[0]);
                for (size_t i = 0; i + 1 < W.args_sent.size() && i < W.got.size(); i++) if (W.got[i] >= 0) want[(size_t)(W.got[i] / 1000 - 1)].push_back(W.args_sent[i + 1]);
                for (int s = 0; s < nsrc && err.empty(); s++) {
                    const auto &seen = W.seen_args[s];
                    // the body may not have consumed the last routed argument yet (parked / ended): seen must be a prefix of want
                    if (seen.size() > want[(size_t)s].size() || !std::equal(seen.begin(), seen.end(), want[(size_t)s].begin())) err = "argument routing: source " + std::to_string(s) + " saw arguments that were not routed to it";
                }
            }
            if (err.empty() && tracked::live.load() != live0) err = "source generator locals leaked or destroyed twice after the aggregate was destroyed (live delta " + std::to_string(tracked::live.load() - live0) + ")";
            if (err.empty() && tracked::bad.load() != bad0) err = "source generator local destroyed twice";
        }
        if (!err.empty()) {
            R.violation("monitor:union|aggregator_programs", err, vf::jobj().kv("program", (unsigned long long)pn).kv("seed", (unsigned long long)o.seed).kv("desc", desc).kv("observed", g_got_str(W.got)).kv("stall_plan", plan).str());
            continue;
        }
        bool nontrivial = nsrc >= 2 && W.got.size() >= 3;
        if (nontrivial) R.nontrivial_cases++;
        std::string st; for (int s : W.styles_used) st += (char)('0' + s);
        R.sig(desc + " s" + st + " o" + g_got_str(W.got), nontrivial);
        R.cls("sources", (uint64_t)nsrc);
        if (mt && has_pending) R.cls("programs_with_cross_thread_completion");
        if (stop_early) R.cls("programs_destroying_the_aggregate_while_parked");
        if (coro_consumer) R.cls("consumer_is_one_coroutine");
        if (R.samples.size() < 4 && nsrc >= 3) R.sample(vf::jobj().kv("program", desc).kv("observed", g_got_str(W.got)).str());
    }
}

// ---------------------------------------------------------------------------------------------
// Values whose move empties the source (std::string): the body yields temporaries AND an lvalue it keeps using; the consumer mixes
// all synchronous access styles. Every style must deliver exactly the yielded text, value() must still show it afterwards, and the
// body's own variable must never be emptied by a reader.
inline cocls::generator<std::string> g_string_body(int n, std::vector<std::string> &expect, int pattern) {
    std::string acc = "acc";
    for (int i = 0; i < n; i++) {
        if ((pattern >> (i % 8)) & 1) { std::string t = "temporary-item-with-a-long-text-" + std::to_string(i); expect.push_back(t); co_yield std::move(t); }
        else { acc += "+" + std::to_string(i) + "-long-enough-to-live-on-the-heap"; expect.push_back(acc); co_yield acc; }
    }
}
inline void generator_string_values(const vf::opts &o, vf::report &R, uint64_t programs) {
    vf::rng master(vf::mix(o.seed, 0x313));
    for (uint64_t pn = 0; pn < programs && R.nviol() < 5; pn++) {
        vf::rng r(master.next());
        int n = 1 + (int)r.below(8), pattern = (int)r.below(256);
        vf::set_crash_ctx(R.prop.c_str(), "generator_string_values", o.seed, pn);
        std::vector<std::string> expect, got; std::string styles, err;
        {
            auto g = g_string_body(n, expect, pattern);
            std::optional<cocls::generator<std::string>::iterator> it;
            for (int step = 0; step <= n && err.empty(); step++) {
                int style = (int)r.below(3);
                styles += (char)('0' + style);
                bool have = false; std::string item;
                if (style == 0) { if (g.next()) { item = g.value(); have = true; } }
                else if (style == 1) { if (!it) it.emplace(g.begin()); else ++(*it); if (*it != g.end()) { item = **it; have = true; } }
                else { cocls::future<std::string> f = g(); if (f.has_value()) { item = *f; have = true; } }
                if (!have) break;
                got.push_back(item);
                if (g.value() != item) err = "value() after reading item " + std::to_string(step) + " shows '" + g.value().substr(0, 40) + "' instead of the item just delivered";
            }
        }
        R.cases++;
        if (err.empty() && got != expect) {
            size_t k = 0; while (k < got.size() && k < expect.size() && got[k] == expect[k]) k++;
            err = "item " + std::to_string(k) + ": consumer received '" + (k < got.size() ? got[k].substr(0, 48) : std::string("<end>")) + "', the body yielded '" + (k < expect.size() ? expect[k].substr(0, 48) : std::string("<end>")) + "'";
        }
        if (!err.empty()) { R.violation("monitor:sequence|generator_string_values", err, vf::jobj().kv("program", (unsigned long long)pn).kv("items", n).kv("temporary_pattern", pattern).kv("styles", styles).str()); continue; }
        if (n >= 2) { R.nontrivial_cases++; R.sig(std::to_string(n) + "/" + std::to_string(pattern) + "/" + styles); }
        R.cls("string_items_delivered", (uint64_t)got.size());
        if (R.samples.size() < 2 && n > 3) R.sample(vf::jobj().kv("items", n).kv("styles", styles).kv("result", "all texts identical to what the body yielded").str());
    }
}

} // namespace scn
