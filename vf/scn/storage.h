// scenarios for the coroutine storage policies (C19; the two-thread part on reusable_storage_mtsafe also feeds the C03 TSan workload)
#pragma once
#include <vf/team.h>
#include <vf/payload.h>
#include <vf/mstorage.h>
#include <cocls/future.h>
#include <cocls/async.h>
#include <cocls/coro_storage.h>
#include <cocls/alloca_storage.h>
#include <cocls/with_allocator.h>
#include <alloca.h>
#include <memory>
#include <optional>

namespace scn {
using namespace cocls::verif;
using vf::tracked;

// ---- heap accounting hooks (the check binary replaces global operator new/delete and bumps these)
inline std::atomic<long> g_heap_news{0}, g_heap_deletes{0};

// ---- live frame table: every frame handed out by a monitored storage, lock free (relaxed atomics only, no RMW except the slot claim)
struct frame_table {
    static constexpr int N = 64;
    // one word per slot: (pointer << 16) | size  - pointer and size are always read consistently (a monitor race would be a false alarm)
    std::atomic<uint64_t> slot[N];
    std::atomic<unsigned> errors{0};
    frame_table() { for (int i = 0; i < N; i++) slot[i] = 0; }
    static uint64_t pack(char *ptr, size_t n) { return ((uint64_t)(uintptr_t)ptr << 16) | (uint64_t)(n & 0xFFFF); }
    static char *ptr_of(uint64_t v) { return (char *)(uintptr_t)(v >> 16); }
    static size_t size_of(uint64_t v) { return (size_t)(v & 0xFFFF); }
    void add(char *ptr, size_t n) {
        if (n > 0xFFFF) n = 0xFFFF;
        for (int i = 0; i < N; i++) {
            uint64_t v = slot[i].load(std::memory_order_relaxed);
            char *q = ptr_of(v);
            if (v && ptr < q + size_of(v) && q < ptr + n) errors.fetch_or(vf::MS_OVERLAP, std::memory_order_relaxed); // two live frames share memory
        }
        uint64_t nv = pack(ptr, n);
        for (int i = 0; i < N; i++) { uint64_t e = 0; if (slot[i].load(std::memory_order_relaxed) == 0 && slot[i].compare_exchange_strong(e, nv, std::memory_order_relaxed)) return; }
    }
    void remove(char *ptr, size_t n) {
        if (n > 0xFFFF) n = 0xFFFF;
        for (int i = 0; i < N; i++) {
            uint64_t v = slot[i].load(std::memory_order_relaxed);
            if (v && ptr_of(v) == ptr) {
                if (size_of(v) != n) errors.fetch_or(vf::MS_SIZE_MISMATCH, std::memory_order_relaxed);
                slot[i].store(0, std::memory_order_relaxed);
                return;
            }
        }
        errors.fetch_or(vf::MS_DOUBLE_FREE, std::memory_order_relaxed); // released twice / never handed out
    }
    int live() const { int c = 0; for (int i = 0; i < N; i++) if (slot[i].load(std::memory_order_relaxed)) c++; return c; }
    // requested size of the live frame that starts at ptr (0 = none)
    size_t size_at(char *ptr) const { for (int i = 0; i < N; i++) { uint64_t v = slot[i].load(std::memory_order_relaxed); if (v && ptr_of(v) == ptr) return size_of(v); } return 0; }
};
inline frame_table g_frames;
inline std::atomic<long> g_frame_allocs{0}, g_frame_deallocs{0};
inline std::atomic<char *> g_last_frame{nullptr}; // address of the frame handed out last (single-thread sequences inspect it)
inline std::atomic<std::size_t> g_last_frame_size{0}; // and the size the coroutine machinery asked for

// wraps a library storage policy: records every frame, forwards to the policy
template <typename S> struct monitored : S {
    using S::S;
    using S::operator=;
    monitored() = default;
    void *alloc(std::size_t n) {
        void *q = S::alloc(n);
        g_frame_allocs.fetch_add(1, std::memory_order_relaxed);
        g_frames.add((char *)q, n);
        g_last_frame.store((char *)q, std::memory_order_relaxed);
        g_last_frame_size.store(n, std::memory_order_relaxed);
        return q;
    }
    static void dealloc(void *q, std::size_t n) {
        g_frames.remove((char *)q, n);
        g_frame_deallocs.fetch_add(1, std::memory_order_relaxed);
        S::dealloc(q, n);
    }
};

struct st_px3 { unsigned char c[3]; }; struct st_p24 { double d[3]; }; struct st_p16 { uint64_t a, b; }; // buffer element types whose size does not divide typical frame sizes
template <int N> struct st_odd { char c[N]; st_odd() { for (int i = 0; i < N; i++) c[i] = (char)('a' + i); } bool ok() const { for (int i = 0; i < N; i++) if (c[i] != (char)('a' + i)) return false; return true; } };
struct c19_ctx { std::atomic<int> started{0}, finished{0}, canary_bad{0}; };
// extra object with an alignment requirement above the frame's natural 8 bytes
struct alignas(16) tracked16 { tracked t; long double ld; explicit tracked16(uint64_t id) : t(id), ld(1.5L) {} bool ok() const { return t.ok() && ((uintptr_t)this % alignof(tracked16)) == 0 && ld == 1.5L; } };
template <typename St, int N>
cocls::with_allocator<St, cocls::async<int>> st_body(St &, c19_ctx &C, int id, cocls::future<void> *gate) {
    uint64_t can[N];
    for (int i = 0; i < N; i++) can[i] = vf::mix((uint64_t)id, (uint64_t)i);
    C.started.fetch_add(1, std::memory_order_relaxed);
    if (gate) { bool hv = co_await gate->has_value(); (void)hv; }
    for (int i = 0; i < N; i++) if (can[i] != vf::mix((uint64_t)id, (uint64_t)i)) C.canary_bad.fetch_add(1, std::memory_order_relaxed);
    C.finished.fetch_add(1, std::memory_order_relaxed);
    co_return id;
}
// the same body as a MEMBER-function coroutine: the frame is obtained through the operator new overload that also receives the object
// reference (a separate code path in with_allocator)
struct st_member {
    uint64_t salt = 0x5EED;
    template <typename St, int N>
    cocls::with_allocator<St, cocls::async<int>> body(St &, c19_ctx &C, int id, cocls::future<void> *gate) {
        uint64_t can[N];
        for (int i = 0; i < N; i++) can[i] = vf::mix((uint64_t)id ^ salt, (uint64_t)i);
        C.started.fetch_add(1, std::memory_order_relaxed);
        if (gate) { bool hv = co_await gate->has_value(); (void)hv; }
        for (int i = 0; i < N; i++) if (can[i] != vf::mix((uint64_t)id ^ salt, (uint64_t)i)) C.canary_bad.fetch_add(1, std::memory_order_relaxed);
        C.finished.fetch_add(1, std::memory_order_relaxed);
        co_return id;
    }
};
inline st_member g_st_member;
template <typename St> cocls::future<int> st_start(St &st, c19_ctx &C, int id, cocls::future<void> *gate, int size_class) {
    switch (size_class) { // nine frame sizes: far apart, a few words apart, and runs that grow by ONE word (8 bytes) per step, so that both
                          // 8 mod 16 -> 0 mod 16 and 0 mod 16 -> 8 mod 16 growth happens (capacity bookkeeping in allocator granules)
    case 0: return st_body<St, 2>(st, C, id, gate).start();
    case 1: return st_body<St, 24>(st, C, id, gate).start();
    case 2: return st_body<St, 90>(st, C, id, gate).start();
    case 3: return st_body<St, 6>(st, C, id, gate).start();
    case 4: return st_body<St, 29>(st, C, id, gate).start();
    case 5: return st_body<St, 3>(st, C, id, gate).start();
    case 6: return st_body<St, 4>(st, C, id, gate).start();
    case 7: return st_body<St, 5>(st, C, id, gate).start();
    case 8: return st_body<St, 25>(st, C, id, gate).start();
    case 9: return g_st_member.body<St, 2>(st, C, id, gate).start();
    case 10: return g_st_member.body<St, 3>(st, C, id, gate).start();
    case 11: return g_st_member.body<St, 4>(st, C, id, gate).start();
    default: return g_st_member.body<St, 5>(st, C, id, gate).start();
    }
}

constexpr int ST_NSIZES = 13; // 9 free-function bodies + 4 member-function bodies
struct st_result { std::string err; long heap_allocs_after_warmup = 0; std::string desc; };

// sequences: up to 'maxlive' coroutines alive at once on ONE storage (1 for the single-block policies)
template <typename St, typename Make>
void st_sequence(vf::rng &r, Make &&make, int maxlive, bool expect_no_heap_after_warmup, st_result &res, const char *name) {
    long fa0 = g_frame_allocs.load(), fd0 = g_frame_deallocs.load();
    unsigned e0 = g_frames.errors.load();
    c19_ctx C;
    {
        auto st = make();
        struct live_t { std::unique_ptr<cocls::future<void>> gate; std::optional<cocls::promise<void>> prom; std::unique_ptr<cocls::future<int>> fut; int id; };
        std::vector<live_t> live;
        int len = 4 + (int)r.below(20);
        int nextid = 1;
        res.desc = std::string(name) + ": ";
        // first frame of a random size: later, larger frames force the policy to grow its block
        { cocls::future<int> f = st_start(*st, C, 0, nullptr, (int)r.below(ST_NSIZES)); if (f.wait() != 0) res.err = "first coroutine returned a wrong value"; }
        long heap0 = g_heap_news.load();
        for (int step = 0; step < len && res.err.empty(); step++) {
            bool create = live.empty() || ((int)live.size() < maxlive && r.chance(1, 2));
            if (create) {
                int sc = (int)r.below(ST_NSIZES);
                bool suspend = maxlive > 1 ? r.chance(3, 4) : r.chance(1, 2);
                live_t L; L.id = nextid++;
                res.desc += "create(size" + std::to_string(sc) + (suspend ? ",suspends) " : ") ");
                if (suspend) { L.gate = std::make_unique<cocls::future<void>>(); L.prom.emplace(L.gate->get_promise()); }
                L.fut.reset(new cocls::future<int>(st_start(*st, C, L.id, L.gate.get(), sc)));
                if (!suspend) { if (!L.fut->ready() || L.fut->value() != L.id) res.err = "coroutine did not complete with its value"; }
                else live.push_back(std::move(L));
            } else {
                size_t k = r.below((uint32_t)live.size());
                res.desc += "finish#" + std::to_string(live[k].id) + " ";
                (*live[k].prom)();
                if (!live[k].fut->ready() || live[k].fut->value() != live[k].id) res.err = "suspended coroutine did not complete with its value";
                live.erase(live.begin() + (long)k);
            }
            if (g_frames.errors.load() != e0) res.err = "frame monitor: " + vf::ms_errors_str(g_frames.errors.load());
        }
        for (auto &L : live) { (*L.prom)(); if (res.err.empty() && (!L.fut->ready() || L.fut->value() != L.id)) res.err = "coroutine did not complete at the end"; }
        live.clear();
        res.heap_allocs_after_warmup = g_heap_news.load() - heap0;
        // harness allocations (gates, futures, vectors) are part of this count, so "no heap" is checked by a dedicated run below
        (void)expect_no_heap_after_warmup;
    }
    if (res.err.empty() && C.canary_bad.load()) res.err = "frame contents were overwritten while the coroutine was suspended (frame memory not exclusive)";
    if (res.err.empty() && C.started.load() != C.finished.load()) res.err = "not every coroutine finished";
    if (res.err.empty() && g_frame_allocs.load() - fa0 != g_frame_deallocs.load() - fd0) res.err = "frames allocated " + std::to_string(g_frame_allocs.load() - fa0) + " != frames released " + std::to_string(g_frame_deallocs.load() - fd0);
    if (res.err.empty() && g_frames.errors.load() != e0) res.err = "frame monitor: " + vf::ms_errors_str(g_frames.errors.load());
}

// raw size walk on ONE storage object: blocks of 8..~400 bytes (multiples of a word, as coroutine frames are), each next request a few
// words larger or smaller than the previous one; every byte of the requested size is written and read back (ASan: a block smaller
// than requested is a heap-buffer-overflow), then the block is released through the policy.
template <typename St, typename Make> std::string st_raw_walk(vf::rng &r, Make &&make, const char *name, std::string &desc) {
    auto st = make();
    size_t sz = 8 * (1 + r.below(24));
    int steps = 6 + (int)r.below(24);
    desc = std::string(name) + " raw sizes:";
    for (int i = 0; i < steps; i++) {
        desc += " " + std::to_string(sz);
        unsigned char *p = (unsigned char *)st->alloc(sz);
        if (!p) return "alloc returned null";
        unsigned char pat = (unsigned char)(0x40 + i);
        memset(p, pat, sz);
        for (size_t k = 0; k < sz; k++) if (p[k] != pat) return "block content does not read back";
        St::dealloc(p, sz);
        long d = (long)r.below(7) - 3; // -3..+3 words
        if (r.chance(1, 6)) d = (long)r.below(40) - 10;
        long nsz = (long)sz + 8 * d;
        sz = (size_t)std::min<long>(std::max<long>(nsz, 8), 600);
    }
    return "";
}

// equal sized frames after warm-up must not touch the heap (reusing policies): measured with nothing else allocating
template <typename St, typename Make> std::string st_no_heap_after_warmup(Make &&make, int size_class, const char *name) {
    c19_ctx C;
    auto st = make();
    { cocls::future<int> f = st_start(*st, C, 0, nullptr, size_class); (void)f.wait(); }
    long n0 = g_heap_news.load();
    for (int i = 1; i <= 5; i++) { cocls::future<int> f = st_start(*st, C, i, nullptr, size_class); if (f.wait() != i) return "wrong value"; }
    long d = g_heap_news.load() - n0;
    if (d != 0) return std::string(name) + ": " + std::to_string(d) + " heap allocations for 5 equally sized frames after warm-up";
    return "";
}

// stack_storage: frame on the caller's stack through alloca(); one shared size word
inline std::atomic<int> g_stack_outside{0}; // frames that were placed (partly) outside the block the caller obtained from alloca()
template <int N> int st_stack_call(std::size_t &state, c19_ctx &C, int id, bool &used_heap) {
    monitored<cocls::stack_storage> storage(state);
    std::size_t offered = storage;          // what the policy asks the caller to put on the stack
    char *buf = (char *)alloca(offered);
    storage = buf;
    long n0 = g_heap_news.load();
    cocls::future<int> f = st_body<monitored<cocls::stack_storage>, N>(storage, C, id, nullptr).start();
    used_heap = g_heap_news.load() != n0;
    if (!used_heap) { // the frame must lie wholly inside the offered block (a frame that is too large for it belongs on the heap)
        char *fp = g_last_frame.load(std::memory_order_relaxed); std::size_t fs = g_last_frame_size.load(std::memory_order_relaxed);
        if (fp < buf || fp + fs > buf + offered) g_stack_outside.fetch_add(1, std::memory_order_relaxed);
    }
    return f.wait();
}

// Two stack_storage objects on ONE shared size word that overlap in time (nested use): the outer one got its alloca buffer before the
// inner call raised the size word. Its frame must still fit the memory it was really given (heap fallback otherwise).
template <int NOUT, int NIN> std::string st_stack_nested(std::size_t &state, c19_ctx &C, int id) {
    monitored<cocls::stack_storage> outer(state);
    std::size_t given = outer;          // size of the buffer the outer storage gets
    void *buf = alloca(given);
    outer = buf;
    bool h = false;
    int vi = st_stack_call<NIN>(state, C, id + 1, h); // inner use on the same size word (may raise it through its heap fallback)
    auto coro = st_body<monitored<cocls::stack_storage>, NOUT>(outer, C, id, nullptr);
    std::string err;
    size_t fsz = g_frames.size_at((char *)buf);
    if (fsz && fsz + 1 > given) err = "frame of " + std::to_string(fsz) + " bytes was placed into a stack buffer of " + std::to_string(given) + " bytes (storage memory smaller than requested)";
    cocls::future<int> f = coro.start();
    if (err.empty() && (vi != id + 1 || f.wait() != id)) err = "nested stack storage coroutines returned wrong values";
    return err;
}

// Boundary: the caller offers a buffer of EXACTLY the frame size (the shared size word preset by the user). The frame plus its flag byte
// does not fit, so the heap fallback must be used and not a single byte behind the offered buffer may be touched.
template <int N> std::string st_stack_exact(c19_ctx &C, int id) {
    std::size_t learn = 0; bool h = false;
    if (st_stack_call<N>(learn, C, id, h) != id) return "wrong value";
    if (learn < 2) return ""; // nothing learned (should not happen)
    std::size_t state = learn - 1;   // == frame size
    alignas(16) unsigned char buf[2048];
    if (state + 16 > sizeof buf) return "";
    memset(buf, 0xA5, sizeof buf);
    monitored<cocls::stack_storage> storage(state);
    std::size_t given = storage;
    storage = (void *)buf;
    long n0 = g_heap_news.load();
    int v;
    { cocls::future<int> f = st_body<monitored<cocls::stack_storage>, N>(storage, C, id + 1, nullptr).start(); v = f.wait(); }
    bool used_heap = g_heap_news.load() != n0;
    for (std::size_t k = given; k < given + 16; k++) if (buf[k] != 0xA5) return "byte +" + std::to_string(k - given) + " behind the offered stack buffer of " + std::to_string(given) + " bytes (== frame size) was overwritten";
    if (v != id + 1) return "wrong value";
    if (!used_heap) return "a frame of " + std::to_string(given) + " bytes plus its flag byte was placed into a buffer of " + std::to_string(given) + " bytes";
    return "";
}
inline cocls::async<int> st_warm_tls() { co_return 1; }
inline void storage_sequences(const vf::opts &o, vf::report &R, uint64_t seqs) {
    vf::rng master(vf::mix(o.seed, 0x19));
    (void)st_warm_tls().join(); // one-time allocations of the thread-local ready queue happen here, outside the balance windows
    for (uint64_t sn = 0; sn < seqs && R.nviol() < 5; sn++) {
        vf::rng r(master.next());
        int policy = (int)(sn % 7);
        vf::set_crash_ctx(R.prop.c_str(), "storage_sequences", o.seed, sn, std::to_string(policy).c_str());
        st_result res;
        res.desc.reserve(4096); res.err.reserve(512); // harness strings must not disturb the heap balance measured below
        long heap_bal0 = g_heap_news.load() - g_heap_deletes.load();
        long live0 = tracked::live.load(), bad0 = tracked::bad.load();
        const char *pname = "";
        switch (policy) {
        case 0: pname = "default_storage"; st_sequence<monitored<cocls::default_storage>>(r, [] { return std::make_unique<monitored<cocls::default_storage>>(); }, 3, false, res, pname); break;
        case 1: pname = "reusable_storage"; st_sequence<monitored<cocls::reusable_storage>>(r, [] { return std::make_unique<monitored<cocls::reusable_storage>>(); }, 1, true, res, pname);
            if (res.err.empty()) res.err = st_no_heap_after_warmup<monitored<cocls::reusable_storage>>([] { return std::make_unique<monitored<cocls::reusable_storage>>(); }, (int)r.below(ST_NSIZES), pname);
            if (res.err.empty() && r.chance(1, 2)) res.err = st_raw_walk<monitored<cocls::reusable_storage>>(r, [] { return std::make_unique<monitored<cocls::reusable_storage>>(); }, pname, res.desc);
            if (res.err.empty() && r.chance(1, 2)) { // storage objects are movable: the block travels with them, exactly one owner at any time
                using RS = monitored<cocls::reusable_storage>;
                c19_ctx C;
                auto a = std::make_unique<RS>();
                { cocls::future<int> f = st_start(*a, C, 1, nullptr, (int)r.below(ST_NSIZES)); if (f.wait() != 1) res.err = "wrong value"; }
                auto b = std::make_unique<RS>(std::move(*a));                 // move construction
                { cocls::future<int> f = st_start(*b, C, 2, nullptr, (int)r.below(ST_NSIZES)); if (f.wait() != 2) res.err = "wrong value"; }
                { cocls::future<int> f = st_start(*a, C, 3, nullptr, (int)r.below(ST_NSIZES)); if (f.wait() != 3) res.err = "wrong value"; } // the moved-from object is usable again
                if (r.chance(1, 2)) *a = std::move(*b); else *b = std::move(*a);  // move assignment over an object that owns a block
                { cocls::future<int> f = st_start(*a, C, 4, nullptr, (int)r.below(ST_NSIZES)); if (f.wait() != 4) res.err = "wrong value"; }
                { cocls::future<int> f = st_start(*b, C, 5, nullptr, (int)r.below(ST_NSIZES)); if (f.wait() != 5) res.err = "wrong value"; }
                if (r.chance(1, 3)) { // self move assignment (compaction loops do v[w++] = std::move(v[i]) with w == i): the object must stay usable
                    auto &sa = *a; *a = std::move(sa);
                    { cocls::future<int> f = st_start(*a, C, 6, nullptr, (int)r.below(ST_NSIZES)); if (f.wait() != 6) res.err = "wrong value"; }
                    { cocls::future<int> f = st_start(*a, C, 7, nullptr, (int)r.below(ST_NSIZES)); if (f.wait() != 7) res.err = "wrong value"; }
                    res.desc += " + self move assignment";
                }
                if (r.chance(1, 2)) a.reset(); else b.reset();
                if (res.err.empty() && C.canary_bad.load()) res.err = "frame contents overwritten after the storage object was moved";
                res.desc += " + move-construct / move-assign of the storage object";
            }
            break;
        case 2: pname = "reusable_storage_mtsafe"; st_sequence<monitored<cocls::reusable_storage_mtsafe>>(r, [] { return std::make_unique<monitored<cocls::reusable_storage_mtsafe>>(); }, 3, true, res, pname);
            if (res.err.empty()) res.err = st_no_heap_after_warmup<monitored<cocls::reusable_storage_mtsafe>>([] { return std::make_unique<monitored<cocls::reusable_storage_mtsafe>>(); }, (int)r.below(ST_NSIZES), pname);
            if (res.err.empty() && r.chance(1, 2)) res.err = st_raw_walk<monitored<cocls::reusable_storage_mtsafe>>(r, [] { return std::make_unique<monitored<cocls::reusable_storage_mtsafe>>(); }, pname, res.desc);
            break;
        case 3: { // stack storage with heap fallback
            pname = "stack_storage";
            std::size_t state = r.chance(1, 2) ? 0 : 64;
            c19_ctx C; bool heap = false; int calls = 3 + (int)r.below(10);
            long fa0 = g_frame_allocs.load(), fd0 = g_frame_deallocs.load(); unsigned e0 = g_frames.errors.load();
            res.desc = "stack_storage state0=" + std::to_string(state) + ": ";
            int last_class = -1; bool warmed[4] = {false, false, false, false};
            bool big = r.chance(1, 3); // a third of the sequences also create frames of several kilobytes (page-sized and larger blocks)
            int out0 = g_stack_outside.load();
            for (int i = 0; i < calls && res.err.empty(); i++) {
                int sc = (int)r.below(big ? 4 : 3);
                int v = sc == 0 ? st_stack_call<2>(state, C, i, heap) : sc == 1 ? st_stack_call<24>(state, C, i, heap) : sc == 2 ? st_stack_call<90>(state, C, i, heap) : (i & 1) ? st_stack_call<760>(state, C, i, heap) : st_stack_call<1300>(state, C, i, heap);
                res.desc += "call(size" + std::to_string(sc) + (heap ? ",heap) " : ",stack) ");
                if (v != i) res.err = "coroutine on stack storage returned a wrong value";
                // once a frame of this size (or larger) went through the heap fallback the shared size word must make the next one fit
                bool must_fit = false; for (int k = sc + (sc == 3 ? 1 : 0); k < 4; k++) must_fit = must_fit || warmed[k]; // class 3 has two sizes: no must-fit claim within it
                if (res.err.empty() && g_stack_outside.load() != out0) res.err = "stack_storage placed a frame (partly) outside the block it asked the caller to put on the stack";
                if (res.err.empty() && must_fit && heap) res.err = "stack_storage fell back to the heap although an equal or larger frame was seen before (size word not updated)";
                warmed[sc] = true; last_class = sc;
            }
            (void)last_class;
            if (res.err.empty()) { // nested use with a fresh or partly warmed size word
                std::size_t st2 = r.chance(1, 2) ? 0 : state / 2;
                switch (r.below(4)) {
                case 0: res.err = st_stack_nested<24, 90>(st2, C, 500); break;
                case 1: res.err = st_stack_nested<90, 24>(st2, C, 500); break;
                case 2: res.err = st_stack_nested<2, 29>(st2, C, 500); break;
                default: res.err = st_stack_nested<29, 29>(st2, C, 500); break;
                }
                res.desc += "nested ";
            }
            if (res.err.empty()) {
                switch (r.below(3)) { case 0: res.err = st_stack_exact<2>(C, 700); break; case 1: res.err = st_stack_exact<5>(C, 700); break; default: res.err = st_stack_exact<24>(C, 700); break; }
                res.desc += "exact-size-buffer ";
            }
            if (res.err.empty() && C.canary_bad.load()) res.err = "frame contents overwritten";
            if (res.err.empty() && g_frame_allocs.load() - fa0 != g_frame_deallocs.load() - fd0) res.err = "frames allocated != released";
            if (res.err.empty() && g_frames.errors.load() != e0) res.err = "frame monitor: " + vf::ms_errors_str(g_frames.errors.load());
            break;
        }
        case 4: { // placement_alloc
            pname = "placement_alloc";
            auto buf = std::make_unique<std::array<char, 4096>>();
            char *b = buf->data();
            st_sequence<monitored<cocls::placement_alloc>>(r, [b] { return std::make_unique<monitored<cocls::placement_alloc>>(b); }, 1, true, res, pname);
            if (res.err.empty()) res.err = st_no_heap_after_warmup<monitored<cocls::placement_alloc>>([b] { return std::make_unique<monitored<cocls::placement_alloc>>(b); }, (int)r.below(3), pname);
            break;
        }
        case 5: { // reusable_buffer_storage over a POD vector (element width 8 and 1: the buffer is sized in elements, the frame in bytes)
            pname = "reusable_buffer_storage";
            auto run_rb = [&](auto tag) {
                using Vec = typename decltype(tag)::type;
                auto vec = std::make_unique<Vec>();
                auto *vp = vec.get();
                using RB = cocls::reusable_buffer_storage<Vec>;
                st_sequence<monitored<RB>>(r, [vp] { return std::make_unique<monitored<RB>>(*vp); }, 1, true, res, pname);
                if (res.err.empty()) res.err = st_no_heap_after_warmup<monitored<RB>>([vp] { return std::make_unique<monitored<RB>>(*vp); }, (int)r.below(ST_NSIZES), pname);
                if (res.err.empty() && r.chance(1, 2)) res.err = st_raw_walk<monitored<RB>>(r, [vp] { return std::make_unique<monitored<RB>>(*vp); }, pname, res.desc);
                if (res.err.empty()) { // every frame must lie wholly inside the buffer (the buffer counts ELEMENTS, the frame bytes: the element size need not divide the frame size)
                    Vec fresh; vp->swap(fresh);
                    monitored<RB> st(*vp);
                    c19_ctx C;
                    for (int k = 0; k < 4 && res.err.empty(); k++) {
                        int sc = (int)r.below(ST_NSIZES);
                        cocls::future<int> f = st_start(st, C, 40 + k, nullptr, sc);
                        char *fp = g_last_frame.load(std::memory_order_relaxed), *b = (char *)vp->data(), *e = b + vp->size() * sizeof(typename Vec::value_type);
                        std::size_t fs = g_last_frame_size.load(std::memory_order_relaxed);
                        if (f.wait() != 40 + k) res.err = "wrong value";
                        else if (fp < b || fp + fs > e) res.err = "a frame of " + std::to_string(fs) + " bytes was placed into a buffer of " + std::to_string((size_t)(e - b)) + " bytes (element size " + std::to_string(sizeof(typename Vec::value_type)) + ")";
                    }
                }
                if (res.err.empty() && r.chance(1, 2)) {
                    // between two coroutines (none alive) the user may do anything with the buffer - grow it, swap it, shrink it: the next
                    // frame must live in the buffer as it is THEN
                    monitored<RB> st(*vp);
                    c19_ctx C;
                    { cocls::future<int> f = st_start(st, C, 1, nullptr, 1 + (int)r.below(2)); if (f.wait() != 1) res.err = "wrong value"; }
                    for (int k = 0; k < 3 && res.err.empty(); k++) {
                        uint32_t how = r.below(3);
                        if (how == 0) { Vec bigger(vp->size() * 2 + 512); vp->swap(bigger); }        // content relocated (old block freed)
                        else if (how == 1) { vp->resize(vp->size() + 4096); }                         // grown by the user
                        else { Vec fresh(vp->size() + 64); *vp = std::move(fresh); }                    // replaced
                        int id = 2 + k;
                        cocls::future<int> f = st_start(st, C, id, nullptr, (int)r.below(2) ? 0 : 3); // small frames: the storage itself need not resize
                        char *fp = g_last_frame.load(std::memory_order_relaxed), *b = (char *)vp->data(), *e = b + vp->size() * sizeof(typename Vec::value_type);
                        if (f.wait() != id) res.err = "wrong value";
                        else if (fp < b || fp >= e) res.err = "the frame was not placed inside the buffer as it is now (stale content pointer)";
                    }
                    if (res.err.empty() && C.canary_bad.load()) res.err = "frame contents overwritten";
                    res.desc += " + buffer relocated by the user between coroutines";
                }
            };
            struct t8 { using type = std::vector<uint64_t>; }; struct t1 { using type = std::vector<char>; };
            struct t3 { using type = std::vector<st_px3>; }; struct t24 { using type = std::vector<st_p24>; }; struct t16 { using type = std::vector<st_p16>; };
            switch (r.below(5)) {
            case 0: run_rb(t8{}); break;
            case 1: run_rb(t1{}); res.desc += " [vector<char>]"; break;
            case 2: run_rb(t3{}); res.desc += " [vector of 3-byte elements]"; break;
            case 3: run_rb(t24{}); res.desc += " [vector of 24-byte elements]"; break;
            default: run_rb(t16{}); res.desc += " [vector of 16-byte elements]"; break;
            }
            break;
        }
        default: { // storage with an attached extra object (ordinary and over-aligned type, frames of 8 mod 16 and 0 mod 16 bytes)
            pname = "promise_extra_storage";
            long ctor0 = tracked::ctor.load();
            auto run_extra = [&](auto tag, const char *tname) {
                using XT = typename decltype(tag)::type;
                using ES = cocls::promise_extra_storage<XT>;
                monitored<ES> st([] { return XT(4242); });
                c19_ctx C;
                cocls::future<void> gate; auto gp = gate.get_promise();
                {
                    int fsize = (int)r.below(4);
                    auto mk = [&](cocls::future<void> *g) { return fsize == 0 ? st_body<monitored<ES>, 24>(st, C, 7, g) : fsize == 1 ? st_body<monitored<ES>, 29>(st, C, 7, g) : fsize == 2 ? st_body<monitored<ES>, 90>(st, C, 7, g) : st_body<monitored<ES>, 6>(st, C, 7, g); };
                    auto coro = mk(&gate); // coroutine object exists, not started
                    if (tracked::live.load() != live0 + 1) res.err = std::string("extra object (") + tname + ") not constructed exactly once when the coroutine object was created (live delta " + std::to_string(tracked::live.load() - live0) + ")";
                    else if (!(*st).ok()) res.err = std::string("extra object (") + tname + ") not usable before the coroutine is started (corrupt or misaligned)";
                    cocls::future<int> f = coro.start();
                    if (res.err.empty() && tracked::live.load() != live0 + 1) res.err = "extra object count changed when the coroutine started";
                    gp();
                    if (res.err.empty() && (!f.ready() || f.value() != 7)) res.err = "coroutine with extra object returned a wrong value";
                }
                if (res.err.empty() && tracked::live.load() != live0) res.err = std::string("extra object (") + tname + ") not destroyed with the frame (live delta " + std::to_string(tracked::live.load() - live0) + ")";
                // never started: destroyed with the frame as well
                {   // (the object's address escapes through an opaque asm: clang would otherwise elide the heap frame of a coroutine that never
                    // leaves this scope, and with the frame the storage call and the extra object)
                    auto coro2 = st_body<monitored<ES>, 2>(st, C, 8, nullptr);
                    asm volatile("" : : "r"(&coro2) : "memory");
                }
                if (res.err.empty() && tracked::live.load() != live0) res.err = "extra object of a never started coroutine not destroyed exactly once";
            };
            // extra objects whose size is NOT a multiple of the pointer size, on top of the reusing policies (the request the base policy sees
            // is then not a multiple of 8 either - plain coroutine frames never produce such sizes)
            auto run_odd = [&](auto otag, auto btag, const char *what) {
                using OT = typename decltype(otag)::type; using Base = typename decltype(btag)::type;
                using ES = cocls::promise_extra_storage<OT, Base>;
                monitored<ES> st([] { return OT(); });
                c19_ctx C;
                for (int k = 0; k < 3 && res.err.empty(); k++) {
                    cocls::future<void> gate; auto gp = gate.get_promise();
                    auto coro = k == 1 ? st_body<monitored<ES>, 29>(st, C, 20 + k, &gate) : st_body<monitored<ES>, 5>(st, C, 20 + k, &gate);
                    if (!(*st).ok()) res.err = std::string("odd-sized extra object (") + what + ") not usable before the coroutine is started";
                    cocls::future<int> f = coro.start();
                    gp();
                    if (res.err.empty() && (!f.ready() || f.value() != 20 + k)) res.err = "coroutine with an odd-sized extra object returned a wrong value";
                }
                if (res.err.empty() && C.canary_bad.load()) res.err = "frame contents overwritten (odd-sized extra object)";
                res.desc += std::string(" + odd-sized extra object ") + what;
            };
            struct tag8 { using type = tracked; }; struct tag16 { using type = tracked16; };
            struct o1 { using type = st_odd<1>; }; struct o3 { using type = st_odd<3>; }; struct o13 { using type = st_odd<13>; };
            struct bmt { using type = cocls::reusable_storage_mtsafe; }; struct bru { using type = cocls::reusable_storage; };
            bool over = r.chance(1, 2);
            if (over) run_extra(tag16{}, "alignas(16)"); else run_extra(tag8{}, "tracked");
            if (res.err.empty() && tracked::ctor.load() - ctor0 != 2) res.err = "extra objects constructed " + std::to_string(tracked::ctor.load() - ctor0) + " times for 2 coroutine objects";
            res.desc = std::string("promise_extra_storage<") + (over ? "alignas(16) type" : "tracked") + ">: create, inspect, start, finish, never-started";
            if (res.err.empty()) switch (r.below(6)) {
                case 0: run_odd(o1{}, bmt{}, "1 byte over reusable_storage_mtsafe"); break;
                case 1: run_odd(o3{}, bmt{}, "3 bytes over reusable_storage_mtsafe"); break;
                case 2: run_odd(o13{}, bmt{}, "13 bytes over reusable_storage_mtsafe"); break;
                case 3: run_odd(o1{}, bru{}, "1 byte over reusable_storage"); break;
                case 4: run_odd(o3{}, bru{}, "3 bytes over reusable_storage"); break;
                default: run_odd(o13{}, bru{}, "13 bytes over reusable_storage"); break;
            }
            break;
        }
        }
        R.cases++;
        if (res.err.empty() && g_heap_news.load() - g_heap_deletes.load() != heap_bal0) res.err = std::string(pname) + ": heap blocks not released exactly once (new-delete balance " + std::to_string(g_heap_news.load() - g_heap_deletes.load() - heap_bal0) + ")";
        if (res.err.empty() && (tracked::live.load() != live0 || tracked::bad.load() != bad0)) res.err = "payload counters unbalanced";
        if (!res.err.empty()) { R.violation(std::string("monitor:storage|") + pname, res.err, vf::jobj().kv("sequence", (unsigned long long)sn).kv("seed", (unsigned long long)o.seed).kv("ops", res.desc).kv("detail", res.err).str()); continue; }
        R.nontrivial_cases++;
        R.sig(res.desc);
        R.cls(std::string("policy: ") + pname);
        if (res.desc.find("raw sizes:") != std::string::npos) R.cls("raw_size_walks");
        if (R.samples.size() < 5 && sn % 7 == R.samples.size()) R.sample(vf::jobj().kv("ops", res.desc).kv("result", "frames exclusive, sizes/pairing ok, heap balance zero").str());
    }
}

// ---------------------------------------------------------------------------------------------
// two threads create and finish coroutines on ONE reusable_storage_mtsafe
template <bool Monitored> struct smt_types { using St = std::conditional_t<Monitored, monitored<cocls::reusable_storage_mtsafe>, cocls::reusable_storage_mtsafe>; };
template <bool Monitored>
void storage_mt(const vf::opts &o, vf::report &R, vf::team &T, uint64_t rounds) {
    using St = typename smt_types<Monitored>::St;
    static const int sites[] = {rs_alloc_entry, rs_alloc_flagged, rs_dealloc_entry, rs_dealloc_pre_store, fin_pre_destroy, fin_post_destroy};
    vf::rng master(vf::mix(o.seed, 0x119));
    T.round([&](int) { (void)st_warm_tls().join(); }); // thread-local ready queues of all team threads
    for (uint64_t rn = 0; rn < rounds && R.nviol() < 5; rn++) {
        uint64_t rseed = master.next();
        vf::rng r(rseed);
        auto st = std::make_unique<St>();
        c19_ctx C;
        int n[2] = {1 + (int)r.below(4), 1 + (int)r.below(4)};
        int sc[2][4]; for (int t = 0; t < 2; t++) for (int i = 0; i < 4; i++) sc[t][i] = (int)r.below(ST_NSIZES);
        std::atomic<int> bad_val{0};
        long fa0 = g_frame_allocs.load(), fd0 = g_frame_deallocs.load(); unsigned e0 = g_frames.errors.load();
        std::string desc = "t0:" + std::to_string(n[0]) + " t1:" + std::to_string(n[1]) + " frames";
        std::string plan = T.plan(r, sites, 6);
        vf::set_crash_ctx(R.prop.c_str(), "storage_mt", o.seed, rn, (desc + "; " + plan).c_str());
        std::string err; err.reserve(512);
        long heap_bal0 = g_heap_news.load() - g_heap_deletes.load() - 1; // minus the storage object itself, released before the check
        T.round([&](int tid) {
            vf::start_offset(rseed, tid);
            if (tid > 1) return;
            for (int i = 0; i < n[tid]; i++) {
                cocls::future<int> f = st_start(*st, C, tid * 100 + i, nullptr, sc[tid][i]);
                if (f.wait() != tid * 100 + i) bad_val.fetch_add(1, std::memory_order_relaxed);
            }
        });
        R.cases++;
        if (bad_val.load()) err = "a coroutine returned a wrong value";
        if (err.empty() && C.canary_bad.load()) err = "frame contents were overwritten: the block was handed to two simultaneously live frames";
        if (Monitored && err.empty() && g_frames.errors.load() != e0) err = "frame monitor: " + vf::ms_errors_str(g_frames.errors.load());
        if (Monitored && err.empty() && g_frame_allocs.load() - fa0 != g_frame_deallocs.load() - fd0) err = "frames allocated != released";
        st.reset();
        if (err.empty() && g_heap_news.load() - g_heap_deletes.load() != heap_bal0) err = "heap fallback blocks not released exactly once (balance " + std::to_string(g_heap_news.load() - g_heap_deletes.load() - heap_bal0) + ")";
        if (!err.empty()) { R.violation("monitor:storage|storage_mt", err, vf::jobj().kv("round", (unsigned long long)rn).kv("seed", (unsigned long long)o.seed).kv("desc", desc).kv("stall_plan", plan).str()); continue; }
        R.nontrivial_cases++;
        R.sig(desc + " " + std::to_string(sc[0][0]) + std::to_string(sc[1][0]) + (T.stalls_fired_last_round() ? "S" : ""));
        if (T.stalls_fired_last_round()) R.cls("rounds_with_stall_fired");
        if (R.samples.size() < 2) R.sample(vf::jobj().kv("round", desc).kv("stall_plan", plan).kv("result", "no frame overlap, heap balance zero").str());
    }
}

} // namespace scn
