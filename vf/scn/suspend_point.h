// scenarios for cocls::suspend_point (C06)
#pragma once
#include <string>
#include <vf/team.h>
#include <cocls/suspend_point.h>
#include <cocls/future.h>
#include <cocls/async.h>
#include <cocls/self.h>
#include <memory>
#include <optional>

namespace scn {

// live heap arrays (new[] / delete[]), bumped by the check binary's replaced operators: suspend_point is the only user
inline std::atomic<long> g_arrays_live{0};

// a coroutine that counts its resumptions and never finishes; destroyed explicitly by the harness
struct probe {
    struct promise_type {
        probe get_return_object() { return {std::coroutine_handle<promise_type>::from_promise(*this)}; }
        std::suspend_always initial_suspend() noexcept { return {}; }
        std::suspend_always final_suspend() noexcept { return {}; }
        void return_void() {}
        void unhandled_exception() {}
    };
    std::coroutine_handle<promise_type> h;
};
struct probe_log { std::vector<int> order; };
inline probe make_probe(int id, int *counter, probe_log *log) {
    for (;;) {
        (*counter)++;
        if (log) log->order.push_back(id);
        co_await std::suspend_always{};
    }
}

enum {
    SP_NEW_EMPTY = 0, SP_NEW_HANDLE, SP_ADD_HANDLE, SP_MERGE, SP_MOVE_CONSTRUCT, SP_MOVE_ASSIGN, SP_POP, SP_CLEAR, SP_DESTROY,
    SP_AWAIT, SP_TYPED, SP_PAUSE, SP_ADD_MANY, SP_POP_ALL, SP_AWAIT_SELF, SP_NOPS
};
inline const char *spo_name(int o) {
    static const char *n[] = {"new", "new(h)", "<<h", "<<sp", "move-construct", "move-assign", "pop", "clear", "destroy", "co_await", "typed", "pause", "<<h*k", "pop-all", "co_await [k1 handles, self(), k2 handles]"};
    return n[o];
}
struct sp_op { int op; int a; int b; int k; };

struct sp_world {
    static constexpr int NOBJ = 6, NH = 64;
    std::unique_ptr<cocls::suspend_point<void>> obj[NOBJ];
    std::vector<int> model[NOBJ];  // handles the object holds according to the model
    int counter[NH] = {};
    int expect[NH] = {};           // how often each handle must have been resumed by now (normal mode) / eventually
    bool queued[NH] = {};          // coroutine mode: flushed to the ready queue, must run at the next suspension of the driver
    bool maybe[NH] = {};           // carried by an awaited suspend point that also held the driver's own handle: ran already or still queued
    int self_awaits = 0, self_continues = 0;
    probe probes[NH];
    int nh = 0;
    probe_log log;
    std::string err;
    bool coro_mode = false;
    int new_handle() {
        if (nh >= NH) return -1;
        probes[nh] = make_probe(nh, &counter[nh], &log);
        return nh++;
    }
    void flush_model(std::vector<int> &m) {
        for (int h : m) { if (coro_mode) queued[h] = true; else expect[h]++; }
        m.clear();
    }
    void drain_queued() { for (int h = 0; h < nh; h++) { if (queued[h]) { queued[h] = false; expect[h]++; } if (maybe[h]) { maybe[h] = false; expect[h]++; } } }
    void check(const char *after) {
        if (!err.empty()) return;
        for (int h = 0; h < nh; h++) if (counter[h] != expect[h] && !(maybe[h] && counter[h] == expect[h] + 1)) {
            err = std::string("after ") + after + ": handle " + std::to_string(h) + " resumed " + std::to_string(counter[h]) + " times, expected " + std::to_string(expect[h]);
            return;
        }
        for (int i = 0; i < NOBJ; i++) if (obj[i]) {
            if (obj[i]->size() != model[i].size()) { err = std::string("after ") + after + ": size() of object " + std::to_string(i) + " is " + std::to_string(obj[i]->size()) + ", expected " + std::to_string(model[i].size()); return; }
            if (obj[i]->empty() != model[i].empty()) { err = "empty() disagrees"; return; }
        }
    }
    ~sp_world() {
        for (int i = 0; i < NOBJ; i++) if (obj[i]) { (void)obj[i].release(); } // never flush during teardown of a failed case
        for (int h = 0; h < nh; h++) probes[h].h.destroy();
    }
};

template <typename F> struct sp_unwind_guard { F f; ~sp_unwind_guard() { f(); } };
template <typename F> sp_unwind_guard(F) -> sp_unwind_guard<F>;
// executes one op; returns true if the op needs "co_await" handling by the driver coroutine (SP_AWAIT / SP_PAUSE)
inline void sp_apply(sp_world &W, const sp_op &op) {
    auto &A = W.obj[op.a];
    switch (op.op) {
    case SP_NEW_EMPTY:
        if (A) { W.flush_model(W.model[op.a]); A.reset(); }
        A = std::make_unique<cocls::suspend_point<void>>();
        break;
    case SP_NEW_HANDLE: {
        if (A) { W.flush_model(W.model[op.a]); A.reset(); }
        int h = W.new_handle(); if (h < 0) break;
        A = std::make_unique<cocls::suspend_point<void>>(std::coroutine_handle<>(W.probes[h].h));
        W.model[op.a].push_back(h);
        break;
    }
    case SP_ADD_HANDLE: {
        if (!A) break;
        int h = W.new_handle(); if (h < 0) break;
        *A << std::coroutine_handle<>(W.probes[h].h);
        W.model[op.a].push_back(h);
        break;
    }
    case SP_ADD_MANY: {
        if (!A) break;
        for (int i = 0; i < op.k; i++) {
            int h = W.new_handle(); if (h < 0) break;
            *A << std::coroutine_handle<>(W.probes[h].h);
            W.model[op.a].push_back(h);
        }
        break;
    }
    case SP_MERGE: {
        auto &B = W.obj[op.b];
        if (!A || !B || op.a == op.b) break;
        *A << std::move(*B);
        for (int h : W.model[op.b]) W.model[op.a].push_back(h);
        W.model[op.b].clear();
        break;
    }
    case SP_MOVE_ASSIGN: {
        auto &B = W.obj[op.b];
        if (!A || !B || op.a == op.b) break;
        *A = std::move(*B); // documented: merges
        for (int h : W.model[op.b]) W.model[op.a].push_back(h);
        W.model[op.b].clear();
        break;
    }
    case SP_MOVE_CONSTRUCT: {
        auto &B = W.obj[op.b];
        if (!B || op.a == op.b) break;
        if (A) { W.flush_model(W.model[op.a]); A.reset(); }
        A = std::make_unique<cocls::suspend_point<void>>(std::move(*B));
        W.model[op.a] = W.model[op.b];
        W.model[op.b].clear();
        break;
    }
    case SP_POP: {
        if (!A) break;
        std::coroutine_handle<> h = A->pop();
        if (W.model[op.a].empty()) { if (h != std::noop_coroutine()) W.err = "pop() on an empty suspend point returned a real handle"; break; }
        int found = -1;
        for (size_t i = 0; i < W.model[op.a].size(); i++) if (W.probes[W.model[op.a][i]].h.address() == h.address()) found = (int)i;
        if (found < 0) { W.err = "pop() returned a handle the suspend point did not hold"; break; }
        int hid = W.model[op.a][(size_t)found];
        W.model[op.a].erase(W.model[op.a].begin() + found);
        h.resume(); // the harness resumes the popped handle itself
        W.expect[hid]++;
        break;
    }
    case SP_POP_ALL: { // drains the suspend point through pop(); the emptied (possibly heap backed) object stays alive
        if (!A) break;
        for (int guard = 0; guard < 100; guard++) {
            std::coroutine_handle<> h = A->pop();
            if (h == std::noop_coroutine()) { if (!W.model[op.a].empty()) W.err = "pop() reported empty although handles are stored"; break; }
            int found = -1;
            for (size_t i = 0; i < W.model[op.a].size(); i++) if (W.probes[W.model[op.a][i]].h.address() == h.address()) found = (int)i;
            if (found < 0) { W.err = "pop() returned a handle the suspend point did not hold"; break; }
            int hid = W.model[op.a][(size_t)found];
            W.model[op.a].erase(W.model[op.a].begin() + found);
            h.resume();
            W.expect[hid]++;
        }
        break;
    }
    case SP_CLEAR:
        if (!A) break;
        // a quarter of the flushes happen in a destructor that runs while an exception unwinds the scope (cleanup code of ordinary users)
        if ((op.k & 3) == 3) { try { sp_unwind_guard g{[&] { A->clear(); }}; throw 1; } catch (int) {} }
        else A->clear();
        W.flush_model(W.model[op.a]);
        break;
    case SP_DESTROY:
        if (!A) break;
        if ((op.k & 3) == 3) { try { sp_unwind_guard g{[&] { A.reset(); }}; throw 1; } catch (int) {} }
        else A.reset();
        W.flush_model(W.model[op.a]);
        break;
    case SP_TYPED: {
        int h = W.new_handle(); if (h < 0) break;
        int val = 1000 + op.k;
        {
            cocls::suspend_point<int> t(std::coroutine_handle<>(W.probes[h].h), val);
            int got = t;
            if (got != val) W.err = "typed suspend point returned " + std::to_string(got) + " instead of " + std::to_string(val);
            if (op.k % 4 == 0 && A) { *A << std::move(t); W.model[op.a].push_back(h); if (t.size() != 0) W.err = "merged-from typed suspend point not empty"; }
            else if (op.k % 4 == 2 && A) {
                // typed point built from an untyped one (takes over all its handles), then moved: the value and every handle travel along
                *A << std::move(t); W.model[op.a].push_back(h);
                size_t n = A->size();
                cocls::suspend_point<int> u(std::move(*A), val + 1);
                if (A->size() != 0 || u.size() != n) W.err = "suspend_point<T>(suspend_point<void>&&, value) did not take over all handles";
                cocls::suspend_point<int> v(std::move(u));
                int got2 = v;
                if (got2 != val + 1) W.err = "moved typed suspend point returned " + std::to_string(got2) + " instead of " + std::to_string(val + 1);
                if (u.size() != 0 || v.size() != n) W.err = "move construction of a typed suspend point lost or duplicated handles";
                *A << std::move(v); // give the handles back (the model is unchanged)
                if (A->size() != n) W.err = "handles lost on the way back from the typed suspend point";
            }
            else if (op.k % 4 == 1) {
                // a value whose move empties the source: the point keeps the value its producer supplied however often and however it is read
                // (conversion, conversion again, through a const reference, after the point was moved)
                const std::string text = "typed value " + std::to_string(val) + " - long enough to be kept in a heap block of its own";
                cocls::suspend_point<std::string> ts(std::move(t), text);
                std::string a = ts, b = ts;
                const cocls::suspend_point<std::string> &cts = ts; std::string c = cts;
                cocls::suspend_point<std::string> moved(std::move(ts)); std::string d = moved;
                if (a != text || b != text || c != text || d != text) W.err = "typed suspend point no longer returns the value its producer supplied when it is read more than once (read 1..4: " + std::to_string(a.size()) + "/" + std::to_string(b.size()) + "/" + std::to_string(c.size()) + "/" + std::to_string(d.size()) + " chars of " + std::to_string(text.size()) + ")";
                if (W.coro_mode) W.queued[h] = true; else W.expect[h]++; // 'moved' is destroyed at scope end: flushes
            }
            else { if (W.coro_mode) W.queued[h] = true; else W.expect[h]++; } // destroyed at scope end: flushes
        }
        break;
    }
    default: break;
    }
}

inline cocls::async<void> sp_driver(sp_world &W, const std::vector<sp_op> &ops, std::string &trace) {
    for (size_t i = 0; i < ops.size() && W.err.empty(); i++) {
        const sp_op &op = ops[i];
        trace += std::string(spo_name(op.op)) + "(" + std::to_string(op.a) + (op.op == SP_MERGE || op.op == SP_MOVE_ASSIGN || op.op == SP_MOVE_CONSTRUCT ? "," + std::to_string(op.b) : "") + ") ";
        if (op.op == SP_AWAIT) {
            auto &A = W.obj[op.a];
            if (!A) continue;
            bool had = !W.model[op.a].empty();
            W.flush_model(W.model[op.a]);
            {
                cocls::suspend_point<void> &spref = *A; // g++ 12 copies the operand of 'co_await *ptr'
                co_await spref;
            }
            // everything queued so far (including A's handles) ran before the driver continued
            if (had) W.drain_queued();
            if (A->size() != 0) W.err = "suspend point not empty after co_await";
        } else if (op.op == SP_AWAIT_SELF) {
            // a suspend point made of k1 fresh handles, the driver's OWN handle (co_await self(), supported: "to avoid double insert") and
            // k2 fresh handles. Every carried coroutine runs exactly once and the driver continues exactly once; where in that order the
            // driver continues is not fixed (its handle sits in the middle of the list), so the carried ones are "ran or still queued".
            int k1 = op.k % 4, k2 = (op.k / 4) % 4;
            cocls::suspend_point<void> n;
            std::vector<int> hs;
            for (int j = 0; j < k1; j++) { int h = W.new_handle(); if (h < 0) break; n << std::coroutine_handle<>(W.probes[h].h); hs.push_back(h); }
            n << (co_await cocls::self());
            for (int j = 0; j < k2; j++) { int h = W.new_handle(); if (h < 0) break; n << std::coroutine_handle<>(W.probes[h].h); hs.push_back(h); }
            if (n.size() != hs.size() + 1) W.err = "size() wrong after merging the own handle";
            for (int h : hs) W.maybe[h] = true;
            for (int h = 0; h < W.nh; h++) if (W.queued[h]) { W.queued[h] = false; W.maybe[h] = true; } // queued earlier: may run while the driver is suspended
            W.self_awaits++;
            co_await n;
            W.self_continues++;
            if (W.self_continues != W.self_awaits && W.err.empty()) W.err = "the awaiting coroutine, whose own handle was among the carried handles, continued " + std::to_string(W.self_continues) + " times for " + std::to_string(W.self_awaits) + " co_awaits (resumed twice)";
        } else if (op.op == SP_PAUSE) {
            co_await cocls::pause();
            W.drain_queued();
        } else sp_apply(W, op);
        // run-to-suspension: nothing flushed in coroutine mode may have run yet
        W.check(spo_name(op.op));
    }
}

// A driver that runs OUTSIDE coroutine mode: a bare coroutine that ordinary code resumes with handle.resume() (what a foreign event
// loop or callback does). No ready queue is active while it runs, so flushes behave as in normal mode, and `co_await sp` on a
// non-empty suspend point must run the carried coroutines and continue the driver exactly once. The driver regularly returns to
// ordinary code (yield); ordinary code checks that the driver never continued past a yield it was not resumed from.
struct raw_task {
    struct promise_type {
        raw_task get_return_object() { return {std::coroutine_handle<promise_type>::from_promise(*this)}; }
        std::suspend_always initial_suspend() noexcept { return {}; }
        std::suspend_always final_suspend() noexcept { return {}; }
        void return_void() {}
        void unhandled_exception() { std::terminate(); }
    };
    std::coroutine_handle<promise_type> h;
};
struct raw_state { int continues = 0; bool finished = false; };
inline raw_task sp_raw_driver(sp_world &W, const std::vector<sp_op> &ops, std::string &trace, raw_state &S) {
    S.continues++;
    for (size_t i = 0; i < ops.size() && W.err.empty(); i++) {
        const sp_op &op = ops[i];
        if (op.op == SP_PAUSE || op.op == SP_AWAIT_SELF) continue;
        trace += std::string(spo_name(op.op)) + "(" + std::to_string(op.a) + (op.op == SP_MERGE || op.op == SP_MOVE_ASSIGN || op.op == SP_MOVE_CONSTRUCT ? "," + std::to_string(op.b) : "") + ") ";
        if (op.op == SP_AWAIT) {
            auto &A = W.obj[op.a];
            if (!A) continue;
            bool had = !W.model[op.a].empty();
            W.flush_model(W.model[op.a]); // no queue active: they have all run when the driver continues; inside the temporary queue: queued
            W.self_awaits++;
            {
                cocls::suspend_point<void> &spref = *A;
                co_await spref;
            }
            W.self_continues++;
            // a co_await that really suspended continues the driver from INSIDE the temporary ready queue the library installed: until the
            // driver returns to ordinary code it runs in coroutine mode (flushes are queued, everything queued runs before ordinary code goes on)
            if (had) { W.drain_queued(); W.coro_mode = true; }
            if (W.self_continues != W.self_awaits && W.err.empty()) W.err = "driver outside coroutine mode continued " + std::to_string(W.self_continues) + " times for " + std::to_string(W.self_awaits) + " co_awaits on a suspend point";
            if (A->size() != 0 && W.err.empty()) W.err = "suspend point not empty after co_await";
            W.check("co_await (driver outside coroutine mode)");
            if ((op.k & 1) || i + 1 == ops.size()) { trace += "yield "; co_await std::suspend_always{}; S.continues++; }
        } else { sp_apply(W, op); W.check(spo_name(op.op)); }
    }
    trace += "yield ";
    co_await std::suspend_always{}; // the last suspension before the end is always one that only ordinary code may end
    S.continues++;
    S.finished = true;
}

inline std::string run_sp_history(const std::vector<sp_op> &ops, bool coro_mode, std::string &trace, bool raw_mode = false) {
    if (raw_mode) {
        long arrays0 = g_arrays_live.load();
        auto W = std::make_unique<sp_world>();
        W->coro_mode = false;
        raw_state S;
        raw_task t = sp_raw_driver(*W, ops, trace, S);
        int resumes = 0;
        while (!S.finished && W->err.empty() && resumes < 1000) {
            resumes++;
            t.h.resume();
            W->drain_queued(); W->coro_mode = false; // back in ordinary code: any temporary queue has been drained
            if (W->err.empty()) W->check("driver returned to ordinary code");
            if (S.continues != resumes && W->err.empty()) W->err = "driver outside coroutine mode continued past a suspension nobody ended (continued " + std::to_string(S.continues) + " times, resumed " + std::to_string(resumes) + " times by ordinary code)";
            if (W->err.empty() && cocls::coro_queue::is_active()) W->err = "a ready queue is still active after the driver returned to ordinary code";
        }
        if (W->err.empty()) W->check("driver finished");
        if (W->err.empty()) {
            t.h.destroy();
            for (int i = 0; i < sp_world::NOBJ; i++) if (W->obj[i]) { W->obj[i].reset(); W->flush_model(W->model[i]); }
            W->check("final destruction");
            for (int h = 0; h < W->nh && W->err.empty(); h++) if (W->counter[h] > 1) W->err = "handle resumed twice";
            if (W->err.empty() && g_arrays_live.load() != arrays0) W->err = "heap array of a suspend point leaked or released twice (new[]/delete[] balance " + std::to_string(g_arrays_live.load() - arrays0) + ")";
        } // on an error the driver frame is leaked on purpose (it may be resumed or destroyed in an unknown state)
        return W->err;
    }
    long arrays0 = g_arrays_live.load();
    auto W = std::make_unique<sp_world>();
    W->coro_mode = coro_mode;
    if (!coro_mode) {
        for (size_t i = 0; i < ops.size() && W->err.empty(); i++) {
            const sp_op &op = ops[i];
            if (op.op == SP_AWAIT || op.op == SP_PAUSE || op.op == SP_AWAIT_SELF) continue;
            trace += std::string(spo_name(op.op)) + "(" + std::to_string(op.a) + (op.op == SP_MERGE || op.op == SP_MOVE_ASSIGN || op.op == SP_MOVE_CONSTRUCT ? "," + std::to_string(op.b) : "") + ") ";
            sp_apply(*W, op);
            W->check(spo_name(op.op));
        }
    } else {
        sp_driver(*W, ops, trace).detach(); // normal mode caller: runs the driver and drains the ready queue before returning
        W->drain_queued();
        W->check("driver finished and ready queue drained");
    }
    if (W->err.empty()) {
        // final: destroy all objects (flushes), then every handle handed over must have run exactly once
        for (int i = 0; i < sp_world::NOBJ; i++) if (W->obj[i]) { W->obj[i].reset(); bool cm = W->coro_mode; W->coro_mode = false; W->flush_model(W->model[i]); W->coro_mode = cm; }
        W->check("final destruction");
        for (int h = 0; h < W->nh && W->err.empty(); h++) if (W->counter[h] > 1) W->err = "handle resumed twice";
        if (W->err.empty() && g_arrays_live.load() != arrays0) W->err = "heap array of a suspend point leaked or released twice (new[]/delete[] balance " + std::to_string(g_arrays_live.load() - arrays0) + ")";
    }
    return W->err;
}

inline void suspend_point_history(const vf::opts &o, vf::report &R, uint64_t histories) {
    vf::rng master(vf::mix(o.seed, 0x06));
    static const int sizes[] = {2, 3, 4, 5, 6, 7, 12, 13, 24, 25, 1, 40};
    for (uint64_t hn = 0; hn < histories && R.nviol() < 5; hn++) {
        vf::rng r(master.next());
        vf::set_crash_ctx(R.prop.c_str(), "suspend_point_history", o.seed, hn);
        int len = 1 + (int)r.below(r.chance(1, 5) ? 60 : 16);
        bool coro_mode = r.chance(1, 2);
        bool raw_mode = !coro_mode && r.chance(1, 3); // driver is a bare coroutine resumed by ordinary code (no ready queue active)
        std::vector<sp_op> ops;
        int nobj = 2 + (int)r.below(5);
        for (int i = 0; i < len; i++) {
            sp_op op{};
            uint32_t x = r.below(100);
            op.a = (int)r.below((uint32_t)nobj); op.b = (int)r.below((uint32_t)nobj); op.k = (int)r.below(8);
            if (x < 8) op.op = SP_NEW_EMPTY; else if (x < 16) op.op = SP_NEW_HANDLE; else if (x < 34) op.op = SP_ADD_HANDLE;
            else if (x < 44) { op.op = SP_ADD_MANY; op.k = sizes[r.below(12)]; }
            else if (x < 54) op.op = SP_MERGE; else if (x < 60) op.op = SP_MOVE_CONSTRUCT; else if (x < 66) op.op = SP_MOVE_ASSIGN;
            else if (x < 72) op.op = SP_POP; else if (x < 76) op.op = SP_POP_ALL; else if (x < 82) op.op = SP_CLEAR; else if (x < 88) op.op = SP_DESTROY;
            else if (x < (raw_mode ? 94 : 92)) op.op = SP_AWAIT; else if (x < 94) { op.op = SP_AWAIT_SELF; op.k = (int)r.below(16); } else if (x < 97) op.op = SP_TYPED; else op.op = SP_PAUSE;
            ops.push_back(op);
        }
        std::string trace;
        std::string err = run_sp_history(ops, coro_mode, trace, raw_mode);
        R.cases++;
        std::string desc = std::string(coro_mode ? "[coroutine mode] " : raw_mode ? "[bare coroutine resumed by ordinary code] " : "[normal mode] ") + trace;
        if (!err.empty()) { R.violation("monitor:conservation|suspend_point_history", err, vf::jobj().kv("history", (unsigned long long)hn).kv("ops", desc).kv("disagreement", err).str()); continue; }
        if (len >= 3) { R.nontrivial_cases++; R.sig(desc); }
        R.cls(coro_mode ? "history_coroutine_mode" : raw_mode ? "history_driver_outside_coroutine_mode" : "history_normal_mode");
        if (R.samples.size() < 3 && len > 8) R.sample(vf::jobj().kv("ops", desc).kv("result", "every handle resumed exactly once; sizes agree after every step").str());
    }
}

// complete enumeration: sequences of length <= maxlen over 2 objects (both alive, empty at start)
inline void suspend_point_exhaustive(const vf::opts &o, vf::report &R, int maxlen) {
    std::vector<sp_op> alphabet = {
        {SP_ADD_HANDLE, 0, 0, 0}, {SP_ADD_HANDLE, 1, 0, 0}, {SP_ADD_MANY, 0, 0, 4}, {SP_MERGE, 0, 1, 0}, {SP_MERGE, 1, 0, 0}, {SP_MOVE_ASSIGN, 0, 1, 0},
        {SP_POP, 0, 0, 0}, {SP_POP_ALL, 0, 0, 0}, {SP_POP, 1, 0, 0}, {SP_CLEAR, 0, 0, 0}, {SP_MOVE_CONSTRUCT, 2, 0, 0}, {SP_DESTROY, 2, 0, 0}, {SP_MOVE_CONSTRUCT, 0, 1, 0}, {SP_AWAIT, 0, 0, 0},
        {SP_AWAIT_SELF, 0, 0, 0}, {SP_AWAIT_SELF, 0, 0, 2}, {SP_AWAIT_SELF, 0, 0, 8}, {SP_AWAIT_SELF, 0, 0, 5}};
    uint64_t total = 0;
    const size_t A = alphabet.size();
    for (int mode = 0; mode < 2; mode++)
        for (int len = 1; len <= maxlen; len++) {
            uint64_t n = 1; for (int i = 0; i < len; i++) n *= A;
            for (uint64_t code = 0; code < n && R.nviol() < 5; code++) {
                std::vector<sp_op> ops = {{SP_NEW_EMPTY, 0, 0, 0}, {SP_NEW_EMPTY, 1, 0, 0}};
                uint64_t c = code;
                for (int i = 0; i < len; i++) { ops.push_back(alphabet[c % A]); c /= A; }
                std::string trace;
                vf::set_crash_ctx(R.prop.c_str(), "suspend_point_exhaustive", o.seed, code);
                std::string err = run_sp_history(ops, mode == 1, trace);
                R.cases++; total++;
                if (!err.empty()) R.violation("monitor:conservation|suspend_point_exhaustive", err, vf::jobj().kv("ops", trace).kv("coroutine_mode", mode == 1).kv("disagreement", err).str());
                else if (len >= 2) { R.nontrivial_cases++; R.sig(std::to_string(mode) + trace); }
            }
        }
    R.extra["exhaustive_histories"] = std::to_string(total);
    R.extra["exhaustive_space"] = vf::jstr("all sequences of length 1.." + std::to_string(maxlen) + " over an 18-op alphabet on 2(+1) suspend points, normal and coroutine mode");
}

} // namespace scn
