// scenarios for cocls::shared_future (C17; MT part also feeds the C03 TSan workload)
#pragma once
#include <vf/team.h>
#include <vf/payload.h>
#include <cocls/shared_future.h>
#include <cocls/async.h>
#include "queue.h" // outcome helpers
#include <memory>
#include <optional>

namespace scn {
using namespace cocls::verif;
using sfut = cocls::shared_future<tracked>;

struct sf_obs { // what one observer saw
    std::atomic<int> released{0};
    int state = PS_PENDING; uint64_t val = 0; int code = 0;
    std::string str() const { outcome o; o.state = state; o.val = val; o.code = code; return o.str(); }
};
inline void sf_record(sf_obs &ob, sfut &f) {
    try {
        tracked &v = f.value();
        ob.state = PS_VALUE; ob.val = v.ok() ? v.id : 0xBADBADBAD;
    } catch (const vf::test_exc &e) { ob.state = PS_EXC; ob.code = e.code; }
    catch (const cocls::await_canceled_exception &) { ob.state = PS_CANCELED; }
    catch (...) { ob.state = PS_EXC; ob.code = -99; }
}
inline cocls::async<void> sf_waiter(sfut f, sf_obs &ob) {
    try {
        tracked &v = co_await f;
        ob.state = PS_VALUE; ob.val = v.ok() ? v.id : 0xBADBADBAD;
    } catch (const vf::test_exc &e) { ob.state = PS_EXC; ob.code = e.code; }
    catch (const cocls::await_canceled_exception &) { ob.state = PS_CANCELED; }
    ob.released.fetch_add(1, std::memory_order_relaxed);
}
enum { SFR_VALUE = 0, SFR_EXC = 1, SFR_DROP = 2 };
inline void sf_resolve(cocls::promise<tracked> &p, int kind, uint64_t id) {
    switch (kind) {
    case SFR_VALUE: p(id); break;
    case SFR_EXC: p(vf::make_exc((int)id)); break;
    default: { cocls::promise<tracked> q = std::move(p); } break;
    }
}
inline bool sf_expected(const sf_obs &ob, int kind, uint64_t id) {
    if (kind == SFR_VALUE) return ob.state == PS_VALUE && ob.val == id;
    if (kind == SFR_EXC) return ob.state == PS_EXC && ob.code == (int)id;
    return ob.state == PS_CANCELED;
}

// construction paths; the promise is handed out through 'out'
inline int g_sf_ready_without_promise = 0; // an initialised state for which no promise exists yet reported ready()
inline sfut sf_make(int path, cocls::promise<tracked> &out, int resolve_now_kind = -1, uint64_t id = 0) {
    if (resolve_now_kind >= 0) { // resolved inside the construction function: the state is ready before it is ever shared
        if (path == 0) return sfut([&](cocls::promise<tracked> p) { sf_resolve(p, resolve_now_kind, id); });
        if (path == 1) return sfut([&]() -> cocls::future<tracked> { return cocls::future<tracked>([&](cocls::promise<tracked> p) { sf_resolve(p, resolve_now_kind, id); }); });
        sfut f; auto p = f.get_promise(); sf_resolve(p, resolve_now_kind, id); return f;
    }
    switch (path) {
    case 0: return sfut([&](cocls::promise<tracked> p) { out = std::move(p); });
    case 1: return sfut([&]() -> cocls::future<tracked> { return cocls::future<tracked>([&](cocls::promise<tracked> p) { out = std::move(p); }); });
    case 2: { sfut f; out = f.get_promise(); return f; } // default constructed, initialised later
    default: { sfut f; f.init_if_needed(); sfut c = f; if (f.ready() || c.ready()) g_sf_ready_without_promise++; out = c.get_promise(); return f; } // initialised explicitly, promise taken through a copy
    }
}

// ---------------------------------------------------------------------------------------------
inline void shared_future_history(const vf::opts &o, vf::report &R, uint64_t histories) {
    vf::rng master(vf::mix(o.seed, 0x17));
    for (uint64_t hn = 0; hn < histories && R.nviol() < 5; hn++) {
        vf::rng r(master.next());
        int path = (int)r.below(4), kind = (int)r.below(3);
        uint64_t id = 5000 + hn % 1000;
        std::string trace = "make" + std::to_string(path) + " ";
        vf::set_crash_ctx(R.prop.c_str(), "shared_future_history", o.seed, hn, trace.c_str());
        long live0 = tracked::live.load(), bad0 = tracked::bad.load();
        std::string err;
        {
            cocls::promise<tracked> prom;
            std::vector<std::unique_ptr<sfut>> handles;
            std::deque<sf_obs> obs;
            bool at_construction = r.chance(1, 6);
            handles.push_back(std::make_unique<sfut>(sf_make(path, prom, at_construction ? kind : -1, id)));
            bool resolved = at_construction;
            if (at_construction) trace += "resolved-at-construction" + std::to_string(kind) + " ";
            int len = 1 + (int)r.below(14);
            int resolve_at = (int)r.below((uint32_t)len + 1);
            bool coro_mode = r.chance(1, 4);
            auto body = [&]() {
                for (int step = 0; step <= len && err.empty(); step++) {
                    if (step == resolve_at && !resolved) { trace += "resolve" + std::to_string(kind) + " "; sf_resolve(prom, kind, id); resolved = true; }
                    if (step == len) break;
                    uint32_t x = r.below(11);
                    size_t live_handles = 0; for (auto &h : handles) if (h) live_handles++;
                    if (live_handles == 0) continue;
                    size_t hi; do { hi = r.below((uint32_t)handles.size()); } while (!handles[hi]);
                    if (x < 3) { trace += "copy "; handles.push_back(std::make_unique<sfut>(*handles[hi])); }
                    else if (x < 6) {
                        trace += "await ";
                        obs.emplace_back();
                        if (coro_mode) { auto sp = sf_waiter(*handles[hi], obs.back()).detach(); sp.pop().resume(); }
                        else sf_waiter(*handles[hi], obs.back()).detach();
                    }
                    else if (x < 8) { trace += "drop "; handles[hi].reset(); }
                    else if (x == 10) { trace += "init_if_needed "; handles[hi]->init_if_needed(); } // documented: does nothing on an initialised handle
                    else if (resolved) {
                        trace += (x == 8 ? "wait " : "poll ");
                        obs.emplace_back();
                        if (x == 8) { handles[hi]->sync(); }
                        if (!handles[hi]->ready()) { err = "resolved shared_future reports not ready"; break; }
                        sf_record(obs.back(), *handles[hi]);
                        obs.back().released.store(1);
                    } else { trace += "poll "; if (handles[hi]->ready()) err = "pending shared_future reports ready"; }
                }
            };
            if (coro_mode) cocls::coro_queue::install_queue_and_call(body); else body();
            for (size_t i = 0; i < obs.size() && err.empty(); i++) {
                if (obs[i].released.load() != 1) err = "observer #" + std::to_string(i) + " released " + std::to_string(obs[i].released.load()) + " times";
                else if (!sf_expected(obs[i], kind, id)) err = "observer #" + std::to_string(i) + " saw " + obs[i].str() + ", resolver supplied kind " + std::to_string(kind) + " id " + std::to_string(id);
            }
            handles.clear();
        }
        R.cases++;
        if (err.empty() && g_sf_ready_without_promise) { err = "an initialised shared_future for which no promise exists yet reported ready()"; g_sf_ready_without_promise = 0; }
        if (err.empty() && tracked::live.load() != live0) err = "stored value not destroyed exactly once (live delta " + std::to_string(tracked::live.load() - live0) + ") after all handles are gone and the promise is resolved";
        if (err.empty() && tracked::bad.load() != bad0) err = "stored value destroyed twice or read after destruction";
        if (!err.empty()) { R.violation("monitor:shared_state|shared_future_history", err, vf::jobj().kv("history", (unsigned long long)hn).kv("ops", trace).kv("disagreement", err).str()); continue; }
        R.nontrivial_cases++;
        R.sig(trace);
        if (R.samples.size() < 3 && trace.size() > 40) R.sample(vf::jobj().kv("ops", trace).kv("result", "all observers agree with the resolver; stored value destroyed once").str());
    }
}

// ---------------------------------------------------------------------------------------------
struct sf_round {
    cocls::promise<tracked> prom;
    std::unique_ptr<sfut> handle[vf::MAX_TEAM]; // one private handle per role (copied in setup)
    int actions[vf::MAX_TEAM][4]; int nact[vf::MAX_TEAM] = {};
    sf_obs obs[vf::MAX_TEAM][6]; int nobs[vf::MAX_TEAM] = {};
    int kind = 0; uint64_t id = 0;
    std::atomic<int> poll_ready_seen{0};
    // variant: the shared_future is constructed INSIDE the round by thread 1 while thread 0 resolves the promise as soon as the
    // construction function has handed it out (resolution racing with the constructor's own bookkeeping)
    bool construct_in_round = false; int path = 0;
    std::atomic<int> prom_ready{0};
};
enum { SFA_COPY_AWAIT = 0, SFA_WAIT = 1, SFA_DROP = 2, SFA_POLL = 3, SFA_AWAIT = 4, SFA_COPY_DROP = 5 };
inline const char *sfa_name(int a) { static const char *n[] = {"copy+await", "wait", "drop", "poll", "await", "copy+drop"}; return n[a]; }

inline bool mix_drop_at_end(uint64_t rseed, int tid) { return vf::mix(rseed, 99 + (uint64_t)tid) % 2 == 0; }
inline void sf_role(sf_round &X, int tid, uint64_t rseed) {
    vf::start_offset(rseed, tid);
    if (tid == 0) {
        if (X.construct_in_round) { while (!X.prom_ready.load(std::memory_order_acquire)) vf::cpu_relax(); }
        sf_resolve(X.prom, X.kind, X.id);
        return;
    }
    std::unique_ptr<sfut> &h = X.handle[tid];
    if (X.construct_in_round && tid == 1) {
        auto hand_out = [&X](cocls::promise<tracked> p) { X.prom = std::move(p); X.prom_ready.store(1, std::memory_order_release); };
        if (X.path == 0) h = std::make_unique<sfut>(hand_out);
        else h = std::make_unique<sfut>([&]() -> cocls::future<tracked> { return cocls::future<tracked>(hand_out); });
    }
    for (int i = 0; i < X.nact[tid]; i++) {
        if (!h) break;
        sf_obs &ob = X.obs[tid][X.nobs[tid]];
        switch (X.actions[tid][i]) {
        case SFA_COPY_AWAIT: { sfut c(*h); sf_waiter(c, ob).detach(); X.nobs[tid]++; break; }
        case SFA_AWAIT: sf_waiter(*h, ob).detach(); X.nobs[tid]++; break;
        case SFA_WAIT: h->sync(); sf_record(ob, *h); ob.released.store(1, std::memory_order_relaxed); X.nobs[tid]++; break;
        case SFA_POLL:
            if (h->ready()) { sf_record(ob, *h); ob.released.store(1, std::memory_order_relaxed); X.nobs[tid]++; X.poll_ready_seen.fetch_add(1, std::memory_order_relaxed); }
            break;
        case SFA_COPY_DROP: { sfut c(*h); sfut d(c); (void)d; break; }
        case SFA_DROP: h.reset(); break;
        }
    }
    if (mix_drop_at_end(rseed, tid)) h.reset();
}

inline void shared_future_mt(const vf::opts &o, vf::report &R, vf::team &T, uint64_t rounds) {
    static const int sites[] = {sf_charge_pre_sub, sf_tracer_fire, aw_subchk_pre, aw_subchk_post, aw_subchk_retry, aw_chain_pre, aw_chain_post, aw_chain_node,
                                aw_chain_node_done, prom_claim_pre, prom_claim_post, fut_set_post, coaw_suspend, sync_pre_sub, sync_pre_wait, sync_wake_mid, prom_dtor};
    vf::rng master(vf::mix(o.seed, 0x117));
    for (uint64_t rn = 0; rn < rounds && R.nviol() < 5; rn++) {
        uint64_t rseed = master.next();
        vf::rng r(rseed);
        long live0 = tracked::live.load(), bad0 = tracked::bad.load();
        auto Xp = std::make_unique<sf_round>();
        sf_round &X = *Xp;
        int path = (int)r.below(3);
        X.kind = (int)r.below(3); X.id = 7000 + rn % 1000;
        int nthr = 2 + (int)r.below((uint32_t)(T.n - 1));
        if (nthr > T.n) nthr = T.n;
        std::string desc = "make" + std::to_string(path) + " resolve" + std::to_string(X.kind) + " ";
        X.construct_in_round = r.chance(1, 4);
        if (X.construct_in_round) { nthr = 2; X.path = path = (int)r.below(2); desc = "constructed-in-round make" + std::to_string(path) + " resolve" + std::to_string(X.kind) + " "; }
        {
            std::optional<sfut> first;
            if (!X.construct_in_round) first.emplace(sf_make(path, X.prom));
            for (int t = 1; t < nthr; t++) {
                if (!X.construct_in_round) X.handle[t] = std::make_unique<sfut>(*first);
                X.nact[t] = 1 + (int)r.below(4);
                desc += "| ";
                for (int i = 0; i < X.nact[t]; i++) { X.actions[t][i] = (int)r.below(6); desc += std::string(sfa_name(X.actions[t][i])) + " "; }
            }
        } // the original handle is gone: only role copies (and the pending-state self reference) keep the state alive
        std::string plan = T.plan(r, sites, (int)(sizeof sites / sizeof sites[0]));
        vf::set_crash_ctx(R.prop.c_str(), "shared_future_mt", o.seed, rn, (desc + "; " + plan).c_str());
        T.round([&](int tid) { if (tid < nthr) sf_role(X, tid, rseed); });
        R.cases++;
        std::string err;
        int nobs = 0;
        for (int t = 1; t < nthr && err.empty(); t++) for (int i = 0; i < X.nobs[t] && err.empty(); i++) {
            sf_obs &ob = X.obs[t][i]; nobs++;
            if (ob.released.load() != 1) err = "an awaiter of a copy was released " + std::to_string(ob.released.load()) + " times";
            else if (!sf_expected(ob, X.kind, X.id)) err = "a copy observed " + ob.str() + " but the resolver supplied kind " + std::to_string(X.kind) + " id " + std::to_string(X.id);
        }
        for (int t = 1; t < nthr; t++) X.handle[t].reset();
        if (err.empty() && tracked::live.load() != live0) err = "stored value not destroyed exactly once (live delta " + std::to_string(tracked::live.load() - live0) + ")";
        if (err.empty() && tracked::bad.load() != bad0) err = "stored value destroyed twice or read after destruction";
        auto witness = [&]() { return vf::jobj().kv("scenario", "shared_future_mt").kv("seed", (unsigned long long)o.seed).kv("round", (unsigned long long)rn).kv("roles", desc).kv("stall_plan", plan).str(); };
        if (!err.empty()) { R.violation("monitor:shared_state|shared_future_mt", err, witness()); (void)Xp.release(); continue; }
        int pushed = T.count_event(ev_subchk_pushed), sawready = T.count_event(ev_subchk_ready);
        bool nontrivial = nobs > 0;
        if (nontrivial) R.nontrivial_cases++;
        R.sig(desc + " p" + std::to_string(pushed) + "r" + std::to_string(sawready), nontrivial);
        if (X.construct_in_round) R.cls("rounds_constructing_while_resolving");
        R.cls("awaiters_parked_before_resolution", pushed); R.cls("awaiters_lost_race_to_ready", sawready); R.cls("poll_saw_ready", X.poll_ready_seen.load());
        if (T.stalls_fired_last_round()) R.cls("rounds_with_stall_fired");
        if (R.samples.size() < 3 && nobs > 1) R.sample(witness());
    }
}

// ---------------------------------------------------------------------------------------------
// Trivially destructible result types (int, void): the shared state must still release everything it stores - in particular the
// exception object of an exception outcome - exactly once (LeakSanitizer / ASan judge), for every order of resolution, copying,
// awaiting and dropping the handles.
template <typename T> cocls::async<void> sft_waiter(cocls::shared_future<T> f, sf_obs &ob) {
    try {
        if constexpr (std::is_void_v<T>) { co_await f; ob.state = PS_VALUE; ob.val = 0; }
        else { T &v = co_await f; ob.state = PS_VALUE; ob.val = (uint64_t)v; }
    } catch (const vf::test_exc &e) { ob.state = PS_EXC; ob.code = e.code; }
    catch (const cocls::await_canceled_exception &) { ob.state = PS_CANCELED; }
    ob.released.fetch_add(1, std::memory_order_relaxed);
}
template <typename T> std::string sft_history(vf::rng &r, std::string &trace) {
    using SF = cocls::shared_future<T>;
    std::string err;
    // TWO independent shared states: handles are copied, copy-/move-ASSIGNED across the states (the overwritten state loses an owner and
    // must survive exactly as long as it is pending or somebody else holds it), awaited and dropped in random order
    int path[2] = {(int)r.below(3), (int)r.below(3)}, kind[2] = {(int)r.below(3), (int)r.below(3)};
    trace = std::string(std::is_void_v<T> ? "shared_future<void> " : "shared_future<int> ") + "make" + std::to_string(path[0]) + std::to_string(path[1]) + " ";
    cocls::promise<T> prom[2];
    std::vector<std::unique_ptr<SF>> handles; std::vector<int> hstate;
    std::deque<sf_obs> obs; std::vector<int> ostate;
    for (int st = 0; st < 2; st++) {
        cocls::promise<T> &pr = prom[st];
        if (path[st] == 0) handles.push_back(std::make_unique<SF>([&](cocls::promise<T> p) { pr = std::move(p); }));
        else if (path[st] == 1) handles.push_back(std::make_unique<SF>([&]() -> cocls::future<T> { return cocls::future<T>([&](cocls::promise<T> p) { pr = std::move(p); }); }));
        else { handles.push_back(std::make_unique<SF>()); pr = handles.back()->get_promise(); }
        hstate.push_back(st);
    }
    auto resolve = [&](int st) {
        trace += "resolve" + std::to_string(st) + "/" + std::to_string(kind[st]) + " ";
        if (kind[st] == SFR_VALUE) { if constexpr (std::is_void_v<T>) prom[st](); else prom[st](42 + st); }
        else if (kind[st] == SFR_EXC) prom[st](vf::make_exc(77 + st));
        else { cocls::promise<T> q = std::move(prom[st]); }
    };
    int len = 1 + (int)r.below(12), resolve_at[2] = {(int)r.below((uint32_t)len + 1), (int)r.below((uint32_t)len + 1)};
    for (int step = 0; step <= len; step++) {
        for (int st = 0; st < 2; st++) if (step == resolve_at[st]) resolve(st);
        if (step == len) break;
        size_t live = 0; for (auto &h : handles) if (h) live++;
        if (!live) continue;
        size_t hi; do { hi = r.below((uint32_t)handles.size()); } while (!handles[hi]);
        uint32_t x = r.below(11);
        if (x < 3) { trace += "copy "; handles.push_back(std::make_unique<SF>(*handles[hi])); hstate.push_back(hstate[hi]); }
        else if (x < 6) { trace += "await "; obs.emplace_back(); ostate.push_back(hstate[hi]); sft_waiter<T>(*handles[hi], obs.back()).detach(); }
        else if (x < 8) { trace += "drop "; handles[hi].reset(); }
        else { // assignment onto another live handle (possibly of the other state, possibly itself)
            size_t hj; do { hj = r.below((uint32_t)handles.size()); } while (!handles[hj]);
            if (x == 8) { trace += "copy-assign "; *handles[hj] = *handles[hi]; hstate[hj] = hstate[hi]; }
            else if (x == 9 && hi != hj) { trace += "move-assign "; *handles[hj] = std::move(*handles[hi]); hstate[hj] = hstate[hi]; handles[hi].reset(); }
            else { trace += "self-assign "; SF &ref = *handles[hi]; *handles[hi] = ref; }
        }
    }
    for (size_t i = 0; i < obs.size() && err.empty(); i++) {
        int st = ostate[i];
        if (obs[i].released.load() != 1) err = "observer #" + std::to_string(i) + " released " + std::to_string(obs[i].released.load()) + " times";
        else if (!sf_expected(obs[i], kind[st], kind[st] == SFR_VALUE ? (std::is_void_v<T> ? 0 : 42 + (uint64_t)st) : 77 + (uint64_t)st)) err = "observer #" + std::to_string(i) + " of state " + std::to_string(st) + " saw " + obs[i].str();
    }
    handles.clear();
    return err;
}
inline void shared_future_trivial_types(const vf::opts &o, vf::report &R, uint64_t histories) {
    vf::rng master(vf::mix(o.seed, 0x717));
    for (uint64_t hn = 0; hn < histories && R.nviol() < 5; hn++) {
        vf::rng r(master.next());
        vf::set_crash_ctx(R.prop.c_str(), "shared_future_trivial_types", o.seed, hn);
        std::string trace;
        std::string err = hn % 2 ? sft_history<int>(r, trace) : sft_history<void>(r, trace);
        R.cases++;
        if (!err.empty()) { R.violation("monitor:shared_state|shared_future_trivial_types", err, vf::jobj().kv("history", (unsigned long long)hn).kv("ops", trace).str()); continue; }
        R.nontrivial_cases++;
        R.sig(trace);
        if (R.samples.size() < 2 && trace.size() > 40) R.sample(vf::jobj().kv("ops", trace).kv("result", "all observers agree; nothing leaked (LeakSanitizer at exit)").str());
    }
}

} // namespace scn
