// scenarios for cocls::publisher / cocls::subscriber (C16; MT part also feeds the C03 TSan workload)
#pragma once
#include <vf/team.h>
#include <vf/payload.h>
#include <cocls/publisher.h>
#include <cocls/async.h>
#include <memory>
#include <deque>

namespace scn {
using namespace cocls::verif;
using pub_t = cocls::publisher<int>;
using sub_t = cocls::subscriber<int>;
inline const char *pm_name(int m) { static const char *n[] = {"all_values", "skip_if_behind", "skip_to_recent"}; return n[m]; }
inline cocls::subscribtion_type pm_type(int m) { return m == 0 ? cocls::subscribtion_type::all_values : m == 1 ? cocls::subscribtion_type::skip_if_behind : cocls::subscribtion_type::skip_to_recent; }

struct pw_rec { int done = 0; bool ok = false; int val = 0; long pos = -1; };
inline cocls::async<void> pub_waiter(sub_t &s, pw_rec &rec) {
    bool b = co_await s.next();
    rec.ok = b;
    if (b) rec.val = s.value();
    rec.pos = (long)s.position();
    rec.done++;
}

// Subscriber objects of the single-thread histories live in a small fixed pool (lowest free cell first), so that object ADDRESSES are
// reused as soon as a subscriber leaves - as they are for subscribers kept on the stack or inside containers. (The publisher
// identifies its subscribers by address.)
struct sub_pool {
    static constexpr int N = 16;
    alignas(sub_t) unsigned char mem[N][sizeof(sub_t)];
    bool used[N] = {};
    template <typename... A> sub_t *make(A &&...a) {
        for (int i = 0; i < N; i++) if (!used[i]) { used[i] = true; return new (mem[i]) sub_t(std::forward<A>(a)...); }
        return nullptr;
    }
    void destroy(sub_t *p) { p->~sub_t(); used[(reinterpret_cast<unsigned char *>(p) - mem[0]) / sizeof(sub_t)] = false; }
};
struct pooled_sub { // move-only owner of a pooled subscriber (interface subset of unique_ptr)
    sub_pool *pool = nullptr; sub_t *p = nullptr;
    pooled_sub() = default;
    pooled_sub(sub_pool *pl, sub_t *pp) : pool(pl), p(pp) {}
    pooled_sub(pooled_sub &&o) noexcept : pool(o.pool), p(o.p) { o.p = nullptr; }
    pooled_sub &operator=(pooled_sub &&o) noexcept { if (this != &o) { reset(); pool = o.pool; p = o.p; o.p = nullptr; } return *this; }
    ~pooled_sub() { reset(); }
    void reset() { if (p) { pool->destroy(p); p = nullptr; } }
    sub_t *release() { sub_t *q = p; p = nullptr; return q; }
    sub_t *get() const { return p; }
    sub_t &operator*() const { return *p; }
    sub_t *operator->() const { return p; }
    explicit operator bool() const { return p != nullptr; }
};

struct psub_m { // model of one subscriber
    pooled_sub s;
    int mode = 0;
    long cur = 0;         // position of the last consumed value
    bool kicked = false, eos = false;
    int parked = -1;      // index of the parked waiter record, -1 = none
    long last_pos = -1;   // last position() reported after a successful next()
    long last_val = 0;
};

struct pub_hist {
    std::unique_ptr<pub_t> pub;
    sub_pool pool;
    long N = 0; bool closed = false;
    size_t maxlen = 0, minlen = 1; // maxlen 0 = unlimited
    std::vector<psub_m> subs;
    std::deque<pw_rec> recs;
    std::string err, trace;

    long unread(const psub_m &m) const { return N - m.cur; }
    // validates a completed next() (result ok/val/pos) against the statement; may_block: the call was made when nothing was available
    void check_result(psub_m &m, bool ok, int val, long pos, const char *how) {
        if (!err.empty()) return;
        std::string w = std::string(how) + " on " + pm_name(m.mode) + " subscriber at position " + std::to_string(m.cur);
        if (!ok) {
            bool drained = closed && unread(m) == 0;
            bool lagged = maxlen && (size_t)unread(m) > maxlen;
            if (!(drained || m.kicked || lagged)) { err = w + ": end-of-stream although the publisher is not closed-and-drained, the subscriber was not kicked and is only " + std::to_string(unread(m)) + " behind (max " + (maxlen ? std::to_string(maxlen) : std::string("unlimited")) + ")"; return; }
            m.eos = true;
            return;
        }
        if (m.kicked) { err = w + ": kicked subscriber received a value"; return; }
        if (unread(m) <= 0) { err = w + ": received value " + std::to_string(val) + " although nothing unread was published"; return; }
        if (pos <= m.last_pos) { err = w + ": position() did not increase (" + std::to_string(m.last_pos) + " -> " + std::to_string(pos) + ")"; return; }
        if (pos > N) { err = w + ": position() " + std::to_string(pos) + " is beyond the newest published position " + std::to_string(N); return; }
        switch (m.mode) {
        case 0:
            if (val != m.cur + 1) { err = w + ": received " + std::to_string(val) + " instead of " + std::to_string(m.cur + 1) + " (gap, duplicate or reordering)"; return; }
            if (pos != m.cur + 1) { err = w + ": position() is " + std::to_string(pos) + " after receiving value " + std::to_string(val); return; }
            m.cur = m.cur + 1;
            break;
        case 1:
            // judged by what the statement says and no more: positions strictly forward, values never backwards (a clamped read may
            // deliver a newer value than the position and may repeat it - only all_values is required to be duplicate free)
            if (pos <= m.cur) { err = w + ": skip_if_behind position moved backwards (" + std::to_string(m.cur) + " -> " + std::to_string(pos) + ")"; return; }
            if (val < m.last_val || val < 1 || val > N) { err = w + ": skip_if_behind delivered " + std::to_string(val) + " after " + std::to_string(m.last_val) + " (backwards or never published)"; return; }
            m.cur = pos;
            break;
        default:
            // judged by what the statement says and no more: newest value, position strictly forward (the same newest value may be handed out twice)
            if (val != N) { err = w + ": skip_to_recent yielded " + std::to_string(val) + " but the newest published value is " + std::to_string(N); return; }
            if (pos <= m.cur) { err = w + ": skip_to_recent position moved backwards"; return; }
            m.cur = pos;
            break;
        }
        m.last_pos = pos; m.last_val = val;
    }
    // a publish / close / kick may complete parked waiters
    void settle_parked(const char *after) {
        for (auto &m : subs) {
            if (m.parked < 0 || !m.s) continue;
            pw_rec &rec = recs[(size_t)m.parked];
            bool should_complete = m.kicked || closed || unread(m) > 0;
            if (rec.done > 1) { err = "parked subscriber resumed twice"; return; }
            if (should_complete && !rec.done) { err = std::string("after ") + after + ": waiting subscriber was not woken"; return; }
            if (!should_complete && rec.done) { err = std::string("after ") + after + ": waiting subscriber woken without reason"; return; }
            if (rec.done) { m.parked = -1; check_result(m, rec.ok, rec.val, rec.pos, "awaited next()"); }
        }
    }
};

inline std::string run_publisher_history(vf::rng &r, std::string &trace_out, int &ops_done) {
    pub_hist H;
    int cfg = (int)r.below(3);
    if (cfg == 0) { H.maxlen = 0; H.minlen = 1; H.pub = std::make_unique<pub_t>(); }
    else { H.minlen = 1 + r.below(5); H.maxlen = H.minlen + r.below((uint32_t)(6 - H.minlen)); H.pub = std::make_unique<pub_t>(H.maxlen, H.minlen); }
    H.trace = std::string("cfg(max=") + (H.maxlen ? std::to_string(H.maxlen) : std::string("inf")) + ",min=" + std::to_string(H.minlen) + ") ";
    H.subs.reserve(16);
    int len = 2 + (int)r.below(r.chance(1, 4) ? 50 : 18);
    // long runs on ONE publisher: hundreds of values, retention windows of up to 80 values (the value container grows and is trimmed many times)
    bool longrun = r.chance(1, 80);
    if (longrun) {
        len = 150 + (int)r.below(450);
        H.subs.reserve(300);
        if (cfg != 0) { H.minlen = 1 + r.below(40); H.maxlen = H.minlen + r.below(40); H.pub = std::make_unique<pub_t>(H.maxlen, H.minlen);
                        H.trace = std::string("[long] cfg(max=") + std::to_string(H.maxlen) + ",min=" + std::to_string(H.minlen) + ") "; }
        else H.trace = "[long] " + H.trace;
    }
    auto live = [&]() { std::vector<int> v; for (size_t i = 0; i < H.subs.size(); i++) if (H.subs[i].s) v.push_back((int)i); return v; };
    // "churn" histories: subscribers come and go all the time (registration slots and object addresses are recycled), kicks are frequent
    bool churn = r.chance(1, 4);
    if (churn) H.trace += "[churn] ";
    for (int step = 0; step < len && H.err.empty(); step++) {
        uint32_t x = r.below(100);
        if (longrun && !churn && x >= 93) x = r.below(30); // no early close in long runs, more publishing
        if (churn) { // remap: publish 12, batch 3, subscribe 25, next 25, kick 13, leave 19, close 1
            uint32_t y = r.below(100);
            x = y < 12 ? 0 : y < 15 ? 22 : y < 40 ? 30 : y < 65 ? 42 : y < 78 ? 80 : y < 97 ? 86 : y < 98 ? 93 : 99;
        }
        ops_done++;
        auto lv = live();
        snprintf(vf::g_crash.buf, sizeof vf::g_crash.buf, "{\"scenario\":\"publisher_history\",\"ops_so_far\":\"%.400s\"}", H.trace.c_str());
        if (x < 22 && !H.closed) { // publish single
            H.N++; H.trace += "pub "; H.pub->publish((int)H.N); H.settle_parked("publish");
        } else if (x < 30 && !H.closed) { // publish batch (sometimes an EMPTY range: nothing is published, nobody may be woken)
            int k = r.chance(1, 5) ? 0 : 2 + (int)r.below(3);
            std::vector<int> b; for (int i = 0; i < k; i++) b.push_back((int)(H.N + 1 + i));
            H.N += k; H.trace += "pub*" + std::to_string(k) + " ";
            H.pub->publish(b.begin(), b.end()); H.settle_parked("batch publish");
        } else if (x < 42 && H.subs.size() < (longrun ? 280u : 14u)) { // subscribe
            psub_m m; m.mode = (int)r.below(3);
            uint32_t how = r.below(3);
            if (how == 0 || H.closed) { m.cur = H.N; m.s = pooled_sub(&H.pool, H.pool.make(*H.pub, pm_type(m.mode))); H.trace += std::string("sub(") + pm_name(m.mode) + ") "; }
            else if (how == 1) {
                long keep = (long)std::min<size_t>(H.minlen, (size_t)H.N);
                long pos = H.N - (long)r.below((uint32_t)keep + 1);
                m.cur = pos; m.s = pooled_sub(&H.pool, H.pool.make(*H.pub, (size_t)pos, pm_type(m.mode)));
                H.trace += std::string("sub@") + std::to_string(pos) + "(" + pm_name(m.mode) + ") ";
            } else if (!lv.empty()) {
                psub_m &src = H.subs[(size_t)lv[r.below((uint32_t)lv.size())]];
                m.mode = src.mode; m.cur = src.cur; m.kicked = false; m.last_val = src.last_val;
                m.s = pooled_sub(&H.pool, H.pool.make(*src.s));
                H.trace += std::string("copy(") + (src.parked >= 0 ? "parked " : "") + pm_name(m.mode) + "@" + std::to_string(src.cur) + ") ";
                if (src.kicked || src.eos) { m.s.reset(); } // copying a finished subscriber: outside the statement, dropped
            } else continue;
            if (m.s) { m.last_pos = -1; H.subs.push_back(std::move(m)); }
        } else if (x < 80 && !lv.empty()) { // next in one of three styles
            psub_m &m = H.subs[(size_t)lv[r.below((uint32_t)lv.size())]];
            if (m.parked >= 0 || m.eos) continue;
            bool would_block = !m.kicked && !H.closed && H.unread(m) == 0;
            uint32_t style = r.below(3);
            if (style == 0) { // awaited by a coroutine
                H.trace += "await-next ";
                H.recs.emplace_back();
                pw_rec &rec = H.recs.back();
                pub_waiter(*m.s, rec).detach();
                if (would_block) { if (rec.done) H.err = "awaited next() completed although nothing is available"; else m.parked = (int)H.recs.size() - 1; }
                else { if (!rec.done) H.err = "awaited next() suspended although a result is available"; else H.check_result(m, rec.ok, rec.val, rec.pos, "awaited next()"); }
            } else if (style == 1) { // polled
                H.trace += "poll-next ";
                bool ok = m.s->next_ready();
                if (would_block) { if (ok) H.err = "next_ready() reported a value although nothing is available"; }
                else if (!ok) {
                    // next_ready()==false means "no next item": for a closed/kicked/lagging stream this is the end-of-stream outcome
                    H.check_result(m, false, 0, -1, "next_ready()");
                } else H.check_result(m, true, m.s->value(), (long)m.s->position(), "next_ready()");
            } else if (!would_block) { // blocking conversion to bool (only when it cannot block)
                H.trace += "sync-next ";
                bool ok = m.s->next();
                H.check_result(m, ok, ok ? m.s->value() : 0, (long)m.s->position(), "blocking next()");
            }
        } else if (x < 86 && !lv.empty()) { // kick
            psub_m &m = H.subs[(size_t)lv[r.below((uint32_t)lv.size())]];
            H.trace += "kick ";
            if (r.chance(1, 2)) H.pub->kick(m.s.get()); else m.s->kick_me();
            m.kicked = true; H.settle_parked("kick");
        } else if (x < 93 && !lv.empty()) { // leave
            psub_m &m = H.subs[(size_t)lv[r.below((uint32_t)lv.size())]];
            if (m.parked >= 0) continue; // destroying a subscriber somebody awaits is misuse
            H.trace += "leave "; m.s.reset();
        } else if (x < 97 && !H.closed) { H.trace += "close "; H.closed = true; H.pub->close(); H.settle_parked("close"); }
    }
    if (H.err.empty() && !H.closed) { H.trace += "~publisher "; H.closed = true; H.pub.reset(); H.settle_parked("publisher destruction"); }
    for (auto &m : H.subs) if (m.parked >= 0 && H.err.empty()) H.err = "subscriber still waiting after the publisher was closed/destroyed";
    trace_out = H.trace;
    if (!H.err.empty()) { for (auto &m : H.subs) (void)m.s.release(); (void)H.pub.release(); }
    return H.err;
}

inline void publisher_history(const vf::opts &o, vf::report &R, uint64_t histories) {
    vf::rng master(vf::mix(o.seed, 0x16));
    for (uint64_t hn = 0; hn < histories && R.nviol() < 6; hn++) {
        vf::rng r(master.next());
        vf::set_crash_ctx(R.prop.c_str(), "publisher_history", o.seed, hn);
        std::string trace; int ops = 0;
        std::string err = run_publisher_history(r, trace, ops);
        R.cases++;
        if (!err.empty()) {
            std::string site = err.find("copy") != std::string::npos ? "copy" : "history";
            // classify by the operation the trace ends with (call site of the failing observation)
            bool copied_parked = trace.find("copy(parked") != std::string::npos;
            R.violation(std::string("monitor:stream|") + (copied_parked ? "history_with_copy_of_parked_subscriber" : "publisher_history"), err,
                        vf::jobj().kv("scenario", "publisher_history").kv("seed", (unsigned long long)o.seed).kv("history", (unsigned long long)hn).kv("ops", trace).kv("disagreement", err).str());
            (void)site;
            continue;
        }
        if (ops >= 4) { R.nontrivial_cases++; R.sig(trace); }
        if (trace.find("copy(parked") != std::string::npos) R.cls("histories_copying_a_parked_subscriber");
        if (R.samples.size() < 3 && ops > 10) R.sample(vf::jobj().kv("ops", trace).kv("result", "every next() outcome allowed by the reference stream").str());
    }
}

// ---------------------------------------------------------------------------------------------
struct pmt_sub {
    std::unique_ptr<sub_t> s;
    int mode = 0, style = 0; // style 0 coroutine, 1 blocking
    long start_lo = 0, start_hi = 0; // subscription point bounds
    std::vector<int> got;
    std::vector<long> poss;
    std::atomic<int> finished{0};
    bool late = false;
};
struct pmt_round {
    std::unique_ptr<pub_t> pub;
    pmt_sub subs[3]; int nsubs = 1;
    int total = 0; int batches[16]; int nb = 0;
    int close_style = 0;
    std::atomic<long> pub_started{0}, pub_done{0}; // relaxed monitor shadows: upper / lower bound of the number of values published so far
    int kick_target = -1; std::atomic<int> kicked_done{0};
};
inline bool mix_pause(uint64_t s, int b) { return vf::mix(s, 500 + (uint64_t)b) % 3 == 0; }
inline cocls::async<void> pmt_reader(pmt_sub &S) {
    for (;;) {
        bool b = co_await S.s->next();
        if (!b) break;
        S.got.push_back(S.s->value());
        S.poss.push_back((long)S.s->position());
        if (S.got.size() > 300) break; // a stream of at most 24 values: runaway reader (the oracle reports it)
    }
    S.finished.store(1, std::memory_order_relaxed);
}
inline void publisher_mt(const vf::opts &o, vf::report &R, vf::team &T, uint64_t rounds) {
    static const int sites_pub[] = {pub_push_unlocked, pub_kick_unlocked, aw_chain_pre, pub_push_unlocked};
    static const int sites_sub[] = {coaw_suspend, pub_position, sync_pre_sub, sync_pre_wait, coaw_suspend, coaw_suspend};
    vf::rng master(vf::mix(o.seed, 0x116));
    for (uint64_t rn = 0; rn < rounds && R.nviol() < 6; rn++) {
        uint64_t rseed = master.next();
        vf::rng r(rseed);
        auto Xp = std::make_unique<pmt_round>();
        pmt_round &X = *Xp;
        X.pub = std::make_unique<pub_t>();
        X.nsubs = 1 + (int)r.below((uint32_t)std::min(3, T.n - 1));
        X.total = 0; X.nb = 1 + (int)r.below(6);
        for (int b = 0; b < X.nb; b++) { X.batches[b] = r.chance(1, 3) ? 2 + (int)r.below(3) : 1; X.total += X.batches[b]; }
        X.close_style = (int)r.below(3); // 0 close(), 1 destroy publisher, 2 close() right after the last publish without delay
        std::string desc = "batches=";
        for (int b = 0; b < X.nb; b++) desc += std::to_string(X.batches[b]) + ",";
        desc += " close" + std::to_string(X.close_style) + " subs:";
        for (int i = 0; i < X.nsubs; i++) {
            pmt_sub &S = X.subs[i];
            S.mode = r.chance(2, 3) ? 0 : 1 + (int)r.below(2);
            S.style = (int)r.below(2);
            S.late = r.chance(1, 4);
            if (!S.late) { S.s = std::make_unique<sub_t>(*X.pub, pm_type(S.mode)); S.start_lo = S.start_hi = 0; }
            desc += std::string(pm_name(S.mode)) + (S.style ? "/blocking" : "/coroutine") + (S.late ? "/late" : "") + " ";
        }
        if (r.chance(1, 8)) X.kick_target = (int)r.below((uint32_t)X.nsubs);
        std::string plan = T.plan_by([&](int tid) -> std::pair<const int *, int> { return tid == 0 ? std::make_pair(sites_pub, 4) : std::make_pair(sites_sub, 6); }, r, 1 + X.nsubs);
        vf::set_crash_ctx(R.prop.c_str(), "publisher_mt", o.seed, rn, (desc + "; " + plan).c_str());
        T.round([&](int tid) {
            vf::start_offset(rseed, tid);
            if (tid == 0) {
                int next = 1;
                for (int b = 0; b < X.nb; b++) {
                    X.pub_started.store(next - 1 + X.batches[b], std::memory_order_relaxed);
                    if (X.batches[b] == 1) X.pub->publish(next);
                    else { int tmp[8]; for (int i = 0; i < X.batches[b]; i++) tmp[i] = next + i; X.pub->publish(&tmp[0], &tmp[0] + X.batches[b]); }
                    next += X.batches[b];
                    X.pub_done.store(next - 1, std::memory_order_relaxed);
                    if (X.kick_target >= 0 && b == X.nb / 2 && !X.subs[X.kick_target].late && X.subs[X.kick_target].s) { X.pub->kick(X.subs[X.kick_target].s.get()); X.kicked_done.store(1, std::memory_order_relaxed); }
                    if (mix_pause(rseed, b)) for (int i = 0; i < 30; i++) vf::cpu_relax();
                }
                if (X.close_style == 1) X.pub.reset(); else X.pub->close();
            } else if (tid <= X.nsubs) {
                pmt_sub &S = X.subs[tid - 1];
                if (S.late) {
                    S.start_lo = X.pub_done.load(std::memory_order_relaxed);
                    // the publisher object may be destroyed concurrently in close_style 1: late subscribers only with close()
                    if (X.close_style == 1) { S.finished.store(1); return; }
                    S.s = std::make_unique<sub_t>(*X.pub, pm_type(S.mode));
                    S.start_hi = X.pub_started.load(std::memory_order_relaxed);
                }
                if (S.style == 0) pmt_reader(S).detach();
                else {
                    for (;;) { bool b = S.s->next(); if (!b) break; S.got.push_back(S.s->value()); S.poss.push_back((long)S.s->position()); if (S.got.size() > 300) break; }
                    S.finished.store(1, std::memory_order_relaxed);
                }
            }
        });
        R.cases++;
        std::string err; int errsub = -1;
        long dup = 0;
        for (int i = 0; i < X.nsubs && err.empty(); i++) {
            pmt_sub &S = X.subs[i];
            if (!S.s) continue;
            bool was_kicked = X.kick_target == i && X.kicked_done.load();
            std::string w = std::string(pm_name(S.mode)) + (S.style ? " blocking" : " coroutine") + " subscriber: ";
            if (!S.finished.load()) { err = w + "still waiting after the publisher was closed/destroyed"; errsub = i; break; }
            for (size_t k = 1; k < S.poss.size(); k++) if (S.poss[k] <= S.poss[k - 1]) { err = w + "position() did not increase strictly"; errsub = i; break; }
            if (!err.empty()) break;
            if (S.mode == 0) {
                for (size_t k = 1; k < S.got.size(); k++) if (S.got[k] != S.got[k - 1] + 1) { err = w + "received " + std::to_string(S.got[k]) + " after " + std::to_string(S.got[k - 1]) + " (stream not contiguous / duplicate)"; errsub = i; if (S.got[k] <= S.got[k - 1]) dup++; break; }
                if (!err.empty()) break;
                if (!S.got.empty() && (S.got.front() < S.start_lo + 1 || S.got.front() > S.start_hi + 1)) { err = w + "first value " + std::to_string(S.got.front()) + " is not the one right after its subscription point [" + std::to_string(S.start_lo) + ".." + std::to_string(S.start_hi) + "]"; errsub = i; break; }
                long last = S.got.empty() ? -1 : S.got.back();
                if (!was_kicked) {
                    if (S.got.empty() ? S.start_hi < X.total : last != X.total) { err = w + "end-of-stream after value " + std::to_string(last) + " although " + std::to_string(X.total) + " values were published before close (values lost)"; errsub = i; break; }
                }
            } else {
                for (size_t k = 1; k < S.got.size(); k++) if (S.got[k] < S.got[k - 1] || (S.mode == 1 && S.got[k] == S.got[k - 1])) { err = w + "moved backwards (" + std::to_string(S.got[k]) + " after " + std::to_string(S.got[k - 1]) + ")"; errsub = i; break; }
                for (int v : S.got) if (v < 1 || v > X.total) { err = w + "received a value never published"; errsub = i; }
            }
        }
        auto witness = [&]() {
            std::vector<std::string> ss;
            for (int i = 0; i < X.nsubs; i++) ss.push_back(vf::jobj().kv("mode", pm_name(X.subs[i].mode)).kv("style", X.subs[i].style ? "blocking" : "coroutine").kv("late", X.subs[i].late)
                .raw("received", vf::jnums(X.subs[i].got)).raw("positions", vf::jnums(X.subs[i].poss)).kv("finished", X.subs[i].finished.load()).str());
            return vf::jobj().kv("scenario", "publisher_mt").kv("seed", (unsigned long long)o.seed).kv("round", (unsigned long long)rn).kv("desc", desc).kv("published", X.total)
                .kv("stall_plan", plan).raw("subscribers", vf::jarr(ss)).str();
        };
        if (!err.empty()) { R.violation("monitor:stream|publisher_mt", err, witness()); (void)errsub; for (int i = 0; i < 3; i++) (void)X.subs[i].s.release(); (void)X.pub.release(); (void)Xp.release(); continue; }
        R.nontrivial_cases++;
        int parked = T.count_event(ev_chain_node);
        R.sig(desc + " k" + std::to_string(X.kick_target));
        R.cls("values_published", (uint64_t)X.total);
        (void)parked;
        if (T.stalls_fired_last_round()) R.cls("rounds_with_stall_fired");
        if (R.samples.size() < 3 && X.nsubs >= 2) R.sample(witness());
    }
}
// ---------------------------------------------------------------------------------------------
// two threads publish concurrently on one publisher (the queue is mutex protected), one or two early all_values subscribers read.
// Oracle: every subscriber receives every id of both publishers exactly once, each publisher's ids in its own order, positions
// strictly increasing; the thread finishing last closes.
struct pmt2_round {
    std::unique_ptr<pub_t> pub;
    pmt_sub subs[2]; int nsubs = 1;
    int n[2] = {};
    std::atomic<int> done{0};
};
inline void publisher_two_publishers(const vf::opts &o, vf::report &R, vf::team &T, uint64_t rounds) {
    static const int sites_pub[] = {pub_push_unlocked, aw_chain_pre, pub_push_unlocked};
    static const int sites_sub[] = {coaw_suspend, sync_pre_sub, sync_pre_wait, pub_position};
    vf::rng master(vf::mix(o.seed, 0x216));
    for (uint64_t rn = 0; rn < rounds && R.nviol() < 5; rn++) {
        uint64_t rseed = master.next();
        vf::rng r(rseed);
        auto Xp = std::make_unique<pmt2_round>();
        pmt2_round &X = *Xp;
        X.pub = std::make_unique<pub_t>();
        X.nsubs = T.n >= 4 ? 1 + (int)r.below(2) : 1;
        X.n[0] = 1 + (int)r.below(8); X.n[1] = 1 + (int)r.below(8);
        for (int i = 0; i < X.nsubs; i++) { X.subs[i].mode = 0; X.subs[i].style = (int)r.below(2); X.subs[i].s = std::make_unique<sub_t>(*X.pub); }
        std::string desc = "publishers " + std::to_string(X.n[0]) + "+" + std::to_string(X.n[1]) + " subs=" + std::to_string(X.nsubs);
        std::string plan = T.plan_by([&](int tid) -> std::pair<const int *, int> { return tid < 2 ? std::make_pair(sites_pub, 3) : std::make_pair(sites_sub, 4); }, r, 2 + X.nsubs);
        vf::set_crash_ctx(R.prop.c_str(), "publisher_two_publishers", o.seed, rn, (desc + "; " + plan).c_str());
        T.round([&](int tid) {
            vf::start_offset(rseed, tid);
            if (tid < 2) {
                for (int k = 1; k <= X.n[tid]; k++) X.pub->publish((tid + 1) * 1000 + k);
                if (X.done.fetch_add(1, std::memory_order_acq_rel) == 1) X.pub->close(); // the publisher finishing last closes
            } else if (tid < 2 + X.nsubs) {
                pmt_sub &S = X.subs[tid - 2];
                if (S.style == 0) pmt_reader(S).detach();
                else { for (;;) { bool b = S.s->next(); if (!b) break; S.got.push_back(S.s->value()); S.poss.push_back((long)S.s->position()); if (S.got.size() > 300) break; } S.finished.store(1, std::memory_order_relaxed); }
            }
        });
        R.cases++;
        std::string err;
        for (int i = 0; i < X.nsubs && err.empty(); i++) {
            pmt_sub &S = X.subs[i];
            if (!S.finished.load()) { err = "subscriber still waiting after close"; break; }
            int last[2] = {0, 0}; size_t cnt[2] = {0, 0};
            for (int v : S.got) {
                int p = v / 1000 - 1, k = v % 1000;
                if (p < 0 || p > 1 || k < 1 || k > X.n[p]) { err = "received a value never published: " + std::to_string(v); break; }
                if (k != last[p] + 1) { err = "publisher " + std::to_string(p) + ": value " + std::to_string(k) + " received after " + std::to_string(last[p]) + " (lost, duplicated or reordered)"; break; }
                last[p] = k; cnt[p]++;
            }
            if (err.empty() && (cnt[0] != (size_t)X.n[0] || cnt[1] != (size_t)X.n[1])) err = "end-of-stream after " + std::to_string(cnt[0]) + "+" + std::to_string(cnt[1]) + " values, published " + std::to_string(X.n[0]) + "+" + std::to_string(X.n[1]);
            for (size_t k = 1; k < S.poss.size() && err.empty(); k++) if (S.poss[k] != S.poss[k - 1] + 1) err = "positions not contiguous";
        }
        if (!err.empty()) {
            std::vector<std::string> ss; for (int i = 0; i < X.nsubs; i++) ss.push_back(vf::jnums(X.subs[i].got));
            R.violation("monitor:stream|publisher_two_publishers", err, vf::jobj().kv("round", (unsigned long long)rn).kv("seed", (unsigned long long)o.seed).kv("desc", desc).kv("stall_plan", plan).raw("received", vf::jarr(ss)).str());
            for (int i = 0; i < 2; i++) (void)X.subs[i].s.release(); (void)X.pub.release(); (void)Xp.release(); continue;
        }
        R.nontrivial_cases++;
        R.sig(desc + (T.stalls_fired_last_round() ? " S" : ""));
        if (T.stalls_fired_last_round()) R.cls("rounds_with_stall_fired");
        if (rn < 2) R.sample(vf::jobj().kv("round", desc).raw("received_by_first_subscriber", vf::jnums(X.subs[0].got)).str());
    }
}


// ---------------------------------------------------------------------------------------------
// Bounded publisher with heap-backed values (std::string), a publisher thread that runs ahead and a subscriber thread that keeps
// reading at the TAIL EDGE of the retention window: whenever it is max-1 values behind, the next publish trims exactly the value it is
// fetching. The value handed to the subscriber must be complete (well-formed text, ids strictly increasing); end-of-stream for having
// fallen behind is legitimate at any time. Under TSan / ASan a value fetched outside the publisher's lock shows as a race with its
// destruction / a use after free.
inline void publisher_lag_mt(const vf::opts &o, vf::report &R, vf::team &T, uint64_t rounds) {
    vf::rng master(vf::mix(o.seed, 0x16a9));
    if (T.n < 2) return;
    for (uint64_t rn = 0; rn < rounds && R.nviol() < 5; rn++) {
        uint64_t rseed = master.next(); vf::rng r(rseed);
        size_t maxlen = 1 + r.below(4); int n = 8 + (int)r.below(40); int mode = (int)r.below(2);
        std::string desc = "max=" + std::to_string(maxlen) + " values=" + std::to_string(n) + (mode ? " skip_if_behind" : " all_values");
        vf::set_crash_ctx(R.prop.c_str(), "publisher_lag_mt", o.seed, rn, desc.c_str());
        std::string err; int received = 0; bool edge = false;
        {
            cocls::publisher<std::string> pub(maxlen, 1);
            std::optional<cocls::subscriber<std::string>> sub; sub.emplace(pub, mode ? cocls::subscribtion_type::skip_if_behind : cocls::subscribtion_type::all_values);
            T.round([&](int tid) {
                vf::start_offset(rseed, tid);
                if (tid == 0) {
                    for (int i = 1; i <= n; i++) { pub.publish("v-" + std::to_string(i) + "-this text is long enough to live in a heap block of its own"); if ((i & 3) == 0) for (int k = 0; k < (int)(rseed % 200); k++) vf::cpu_relax(); }
                    pub.close();
                } else if (tid == 1) {
                    long last = 0;
                    for (;;) {
                        bool b = sub->next();
                        if (!b) break;
                        std::string v = sub->value();
                        received++;
                        long id = 0; size_t p2 = v.find('-', 2);
                        if (v.size() < 50 || v.compare(0, 2, "v-") != 0 || p2 == std::string::npos || v.compare(p2, std::string::npos, "-this text is long enough to live in a heap block of its own") != 0) { err = "subscriber received a damaged value (" + std::to_string(v.size()) + " chars)"; break; }
                        id = atol(v.c_str() + 2);
                        // (skip_if_behind: a clamped read may legitimately hand out the same newest value again - values never go backwards)
                        if (mode == 1 ? id < last : id <= last) { err = "values went backwards / repeated (" + std::to_string(last) + " then " + std::to_string(id) + ")"; break; }
                        if (id > last + 1 && mode == 0 && last != 0) { err = "all_values subscriber skipped from " + std::to_string(last) + " to " + std::to_string(id); break; }
                        last = id;
                    }
                    sub.reset();
                }
            });
            edge = received > 0 && received < n;
        }
        R.cases++;
        if (!err.empty()) { R.violation("monitor:stream|publisher_lag_mt", err, vf::jobj().kv("round", (unsigned long long)rn).kv("seed", (unsigned long long)o.seed).kv("desc", desc).str()); continue; }
        R.nontrivial_cases++;
        R.sig(desc + " received=" + std::to_string(received));
        if (edge) R.cls("rounds_in_which_the_subscriber_fell_off_the_retention_window");
    }
}

} // namespace scn
