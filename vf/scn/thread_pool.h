// scenarios for cocls::thread_pool (C11; also part of the C03 TSan workload)
#pragma once
#include <vf/team.h>
#include <vf/payload.h>
#include <cocls/thread_pool.h>
#include <cocls/future.h>
#include <cocls/async.h>
#include "future.h"
#include <array>
#include <future>
#include <memory>
#include <optional>

namespace scn {
using namespace cocls::verif;

enum { PK_AWAIT_POOL = 0, PK_AWAIT_POOL_AWT, PK_RUN_FN, PK_RUN_ASYNC, PK_RUN_DETACHED, PK_RESUME_SP, PK_CURRENT, PK_NKINDS };
inline const char *pk_name(int k) {
    static const char *n[] = {"co_await pool", "co_await pool(awaitable)", "run(fn)", "run(async)", "run_detached(fn)", "resume(suspend_point)", "co_await current()"};
    return n[k];
}
inline const char *pk_key(int k) {
    static const char *n[] = {"await_pool", "pool_awaitable", "run_fn", "run_async", "run_detached", "resume_suspend_point", "current"};
    return n[k];
}
enum { PS_STOP_NONE = 0, PS_STOP_MAIN, PS_STOP_OTHER, PS_STOP_WORKER, PS_STOP_TWO_THREADS, PS_STOP_WORKER_AND_MAIN, PS_NSTOP };

struct pool_job {
    int kind = 0;
    std::atomic<int> ran{0}, cancelled{0}, off_worker{0};
    std::atomic<int> closure_dead{0};
    std::unique_ptr<cocls::future<int>> fut;     // run(fn) / run(async)
    std::unique_ptr<cocls::future<void>> gate;   // resume(sp) / pool(awaitable)
    std::optional<cocls::promise<void>> gate_prom;
    int awt_timing = 0; // pool(awaitable): 0 = the operation completes later (same thread), 1 = already complete, 2 = completed by the PEER submitter thread while this coroutine registers
    std::atomic<int> submitted{0};
    std::atomic<int> outer_ran{0};
    bool throws = false; // run(fn) / run(async): the job ends with an exception, which must reach the returned future
    int pad = 0;         // run_detached: closure size class (see pool_submit)
    int busy = 0;        // run_detached: the job keeps its worker busy for a while (a stop() arriving meanwhile blocks in join)
};
struct pool_round {
    cocls::thread_pool *pool = nullptr; // raw pointer: jobs still running while the pool is being destroyed must not see a changing owner object
    pool_job jobs[2][3];
    int njobs[2] = {};
    int nsub = 1;
    int stop_mode = 0;
    int stop_delay = 0;
    std::atomic<int> worker_stop_started{0};
    std::atomic<int> stop_returned{0};
};
// Handshake between a stop() that runs on one of the pool's own (then detached, never joined) threads and the coordinator that
// destroys the round afterwards. The cells are process-wide (rounds are sequential): the detached thread's final release-store is its
// last access to anything the coordinator may free, and the coordinator's acquire-load orders the destruction behind it.
inline std::atomic<int> g_ws_job{0};  // 0 submitted, 1 running, 2 its stop() returned, 3 dropped without running
struct worker_stop_guard { // the stop job may be cancelled by a competing stop(): then the closure is dropped without running
    bool armed = true;
    worker_stop_guard() = default;
    worker_stop_guard(worker_stop_guard &&o) noexcept : armed(o.armed) { o.armed = false; }
    worker_stop_guard(const worker_stop_guard &) = delete;
    ~worker_stop_guard() { if (armed) { int e = 0; g_ws_job.compare_exchange_strong(e, 3, std::memory_order_acq_rel); g_ws_job.notify_all(); } }
};
// closure guard: counts destruction of the job closure (moved-from shells do not count)
struct closure_guard {
    pool_job *j;
    explicit closure_guard(pool_job *jj) : j(jj) {}
    closure_guard(closure_guard &&o) noexcept : j(o.j) { o.j = nullptr; }
    closure_guard(const closure_guard &) = delete;
    ~closure_guard() { if (j) j->closure_dead.fetch_add(1, std::memory_order_relaxed); }
};

// copy-only capture (a "move" of the closure copies it): every instance that is ever made must be destroyed again - also the
// moved-from shells the pool's function wrapper leaves behind when it relocates a closure
struct copy_ticket {
    static inline std::atomic<long> live{0};
    copy_ticket() { live.fetch_add(1, std::memory_order_relaxed); }
    copy_ticket(const copy_ticket &) { live.fetch_add(1, std::memory_order_relaxed); }
    copy_ticket &operator=(const copy_ticket &) = default;
    ~copy_ticket() { live.fetch_sub(1, std::memory_order_relaxed); }
};

inline cocls::async<void> pj_await_pool(pool_round &X, pool_job &j) {
    try {
        co_await *X.pool;
        if (!is_current(*X.pool)) j.off_worker.fetch_add(1, std::memory_order_relaxed);
        j.ran.fetch_add(1, std::memory_order_relaxed);
    } catch (const cocls::await_canceled_exception &) {
        // a cancelled continuation is ordinary user code: it may ask the pool about its state (locking method). With an explicit
        // stop() the pool object is certainly alive here.
        if (X.stop_mode != PS_STOP_NONE && !X.pool->is_stopped()) j.off_worker.fetch_add(100, std::memory_order_relaxed);
        j.cancelled.fetch_add(1, std::memory_order_relaxed);
    }
}
inline cocls::async<void> pj_await_awt(pool_round &X, pool_job &j) {
    try {
        bool already = j.gate->ready();
        co_await (*X.pool)(*j.gate);
        // documented: if the awaited operation is already resolved no thread is allocated, execution continues in the current thread
        // (when another thread completes the operation while this coroutine registers, either outcome is legitimate)
        if (!already && j.awt_timing != 2 && !is_current(*X.pool)) j.off_worker.fetch_add(1, std::memory_order_relaxed);
        j.ran.fetch_add(1, std::memory_order_relaxed);
    } catch (const cocls::await_canceled_exception &) { j.cancelled.fetch_add(1, std::memory_order_relaxed); }
}
inline cocls::async<int> pj_async_body(pool_round &X, pool_job &j, tracked arg) {
    if (!is_current(*X.pool)) j.off_worker.fetch_add(1, std::memory_order_relaxed);
    j.ran.fetch_add(1, std::memory_order_relaxed);
    if (j.throws) throw vf::test_exc{77};
    co_return (int)arg.id;
}
inline cocls::async<void> pj_parked(pool_round &X, pool_job &j) {
    bool hv = co_await j.gate->has_value();
    (void)hv;
    if (!is_current(*X.pool)) j.off_worker.fetch_add(1, std::memory_order_relaxed);
    j.ran.fetch_add(1, std::memory_order_relaxed);
}
inline cocls::async<void> pj_current(pool_round &X, pool_job &j) {
    try {
        co_await cocls::thread_pool::current();
        // a yield that really went through the queue continues on a worker; one that was cancelled at stop() must arrive as an exception
        if (!is_current(*X.pool)) j.off_worker.fetch_add(1, std::memory_order_relaxed);
        j.ran.fetch_add(1, std::memory_order_relaxed);
    } catch (const cocls::await_canceled_exception &) { j.cancelled.fetch_add(1, std::memory_order_relaxed); }
    (void)X;
}

inline void pool_submit(pool_round &X, pool_job &j) {
    cocls::thread_pool &P = *X.pool;
    switch (j.kind) {
    case PK_AWAIT_POOL: pj_await_pool(X, j).detach(); break;
    case PK_AWAIT_POOL_AWT:
        if (j.awt_timing == 1) { (*j.gate_prom)(); j.gate_prom.reset(); pj_await_awt(X, j).detach(); }
        else if (j.awt_timing == 2) pj_await_awt(X, j).detach(); // the peer thread completes the operation
        else { pj_await_awt(X, j).detach(); (*j.gate_prom)(); j.gate_prom.reset(); }
        break;
    case PK_RUN_FN:
        j.fut = std::unique_ptr<cocls::future<int>>(new cocls::future<int>(P.run([&X, &j, g = closure_guard(&j)]() -> int {
            if (!is_current(*X.pool)) j.off_worker.fetch_add(1, std::memory_order_relaxed);
            j.ran.fetch_add(1, std::memory_order_relaxed);
            if (j.throws) throw vf::test_exc{77};
            return 42;
        })));
        break;
    case PK_RUN_ASYNC: j.fut = std::unique_ptr<cocls::future<int>>(new cocls::future<int>(P.run(pj_async_body(X, j, tracked(42))))); break;
    case PK_RUN_DETACHED: {
        // closures of 24, 56 (largest that fits the 64-byte small buffer of cocls::function), 64 (first that does not) and 224 bytes;
        // the padding carries a pattern that must survive every move of the wrapper
        auto submit = [&](auto pad) {
            for (size_t i = 0; i < pad.size(); i++) pad[i] = (char)(i * 7 + 3);
            P.run_detached([&X, &j, g = closure_guard(&j), pad]() {
                if (!is_current(*X.pool)) j.off_worker.fetch_add(1, std::memory_order_relaxed);
                for (size_t i = 0; i < pad.size(); i++) if (pad[i] != (char)(i * 7 + 3)) j.off_worker.fetch_add(1000, std::memory_order_relaxed);
                for (int i = 0; i < j.busy; i++) vf::cpu_relax();
                j.ran.fetch_add(1, std::memory_order_relaxed);
            });
        };
        switch (j.pad) {
        case 1: submit(std::array<char, 32>{}); break;
        case 2: submit(std::array<char, 40>{}); break;
        case 3: submit(std::array<char, 200>{}); break;
        default:
            P.run_detached([&X, &j, g = closure_guard(&j), t = copy_ticket()]() {
                if (!is_current(*X.pool)) j.off_worker.fetch_add(1, std::memory_order_relaxed);
                for (int i = 0; i < j.busy; i++) vf::cpu_relax();
                j.ran.fetch_add(1, std::memory_order_relaxed);
            });
        }
        break;
    }
    case PK_RESUME_SP: pj_parked(X, j).detach(); P.resume((*j.gate_prom)()); j.gate_prom.reset(); break;
    case PK_CURRENT:
        P.run_detached([&X, &j, g = closure_guard(&j)]() { j.outer_ran.store(1, std::memory_order_relaxed); pj_current(X, j).detach(); });
        break;
    }
    j.submitted.store(1, std::memory_order_relaxed);
}

inline void pool_mt(const vf::opts &o, vf::report &R, vf::team &T, uint64_t rounds) {
    static const int sites_sub[] = {tp_enqueue_entry, tp_await_enqueued, prom_claim_pre, aw_chain_pre, coaw_suspend, aw_subchk_post};
    static const int sites_stop[] = {tp_stop_flagged, tp_stop_pre_join, tp_enqueue_entry};
    static const int sites_worker[] = {tp_worker_dequeued, tp_worker_after_job, tp_current_ready, tp_enqueue_entry, fin_pre_resolve, aw_chain_pre};
    vf::rng master(vf::mix(o.seed, 0x11));
    T.set_aux_targets(true);
    for (uint64_t rn = 0; rn < rounds && R.nviol() < 6; rn++) {
        uint64_t rseed = master.next();
        vf::rng r(rseed);
        long live0 = tracked::live.load(), tickets0 = copy_ticket::live.load();
        auto Xp = std::make_unique<pool_round>();
        pool_round &X = *Xp;
        int nworkers = 1 + (int)r.below(3);
        X.nsub = 1 + (int)r.below((uint32_t)std::min(2, T.n - 1));
        X.stop_mode = (int)r.below(PS_NSTOP);
        if ((X.stop_mode == PS_STOP_OTHER || X.stop_mode == PS_STOP_TWO_THREADS) && X.nsub + 1 >= T.n) X.stop_mode = PS_STOP_MAIN;
        X.stop_delay = (int)r.below(r.chance(1, 3) ? 400 : (r.chance(1, 2) ? 4000 : 20000));
        std::string desc = "workers=" + std::to_string(nworkers) + " stop=" + std::to_string(X.stop_mode) + " ";
        for (int s = 0; s < X.nsub; s++) {
            X.njobs[s] = 1 + (int)r.below(3);
            desc += "| ";
            for (int i = 0; i < X.njobs[s]; i++) {
                pool_job &j = X.jobs[s][i];
                j.kind = (int)r.below(PK_NKINDS);
                j.throws = (j.kind == PK_RUN_FN || j.kind == PK_RUN_ASYNC) && r.chance(1, 4);
                if (j.kind == PK_RUN_DETACHED && r.chance(1, 2)) j.busy = 2000 + (int)r.below(60000);
                if (j.kind == PK_RUN_DETACHED) j.pad = (int)r.below(4);
                if (j.kind == PK_AWAIT_POOL_AWT || j.kind == PK_RESUME_SP) { j.gate = std::make_unique<cocls::future<void>>(); j.gate_prom.emplace(j.gate->get_promise()); }
                if (j.kind == PK_AWAIT_POOL_AWT) { uint32_t w = r.below(4); j.awt_timing = w == 0 ? 1 : (w <= 2 && X.nsub == 2) ? 2 : 0; }
                desc += std::string(pk_name(j.kind)) + (j.throws ? " throwing, " : j.kind == PK_AWAIT_POOL_AWT ? (j.awt_timing == 1 ? " (already complete), " : j.awt_timing == 2 ? " (completed by the peer thread), " : ", ") : ", ");
            }
        }
        g_ws_job.store(0, std::memory_order_relaxed);
        X.pool = new cocls::thread_pool((unsigned)nworkers);
        // thread roles: 0 = coordinator (stops in PS_STOP_MAIN), 1..nsub = submitters, nsub+1 = other stopper
        std::string plan = T.plan_by([&](int tid) -> std::pair<const int *, int> {
            if (tid == -1) return {sites_worker, 6};
            if (tid == 0 || tid == X.nsub + 1) return {sites_stop, 3};
            return {sites_sub, 6};
        }, r, X.nsub + 2);
        vf::set_crash_ctx(R.prop.c_str(), "pool_mt", o.seed, rn, (desc + "; " + plan).c_str());
        T.round([&](int tid) {
            vf::start_offset(rseed, tid);
            if (tid >= 1 && tid <= X.nsub) {
                int s = tid - 1;
                // operations awaited through pool(awaitable) by the OTHER submitter that this thread completes (racing with their registration)
                auto complete_peer = [&] { if (X.nsub == 2) for (int i = 0; i < X.njobs[1 - s]; i++) { pool_job &pj = X.jobs[1 - s][i]; if (pj.kind == PK_AWAIT_POOL_AWT && pj.awt_timing == 2 && pj.gate_prom) { (*pj.gate_prom)(); pj.gate_prom.reset(); } } };
                if (rseed & 1) complete_peer();
                for (int i = 0; i < X.njobs[s]; i++) pool_submit(X, X.jobs[s][i]);
                if (!(rseed & 1)) complete_peer();
            } else if ((tid == 0 && (X.stop_mode == PS_STOP_MAIN || X.stop_mode == PS_STOP_TWO_THREADS)) || (tid == X.nsub + 1 && (X.stop_mode == PS_STOP_OTHER || X.stop_mode == PS_STOP_TWO_THREADS))) {
                // PS_STOP_TWO_THREADS: two ordinary threads call stop() at (almost) the same time
                for (int i = 0; i < X.stop_delay + (tid ? 40 : 0); i++) vf::cpu_relax();
                X.pool->stop();
                X.stop_returned.fetch_add(1, std::memory_order_relaxed);
            } else if (tid == 0 && X.stop_mode == PS_STOP_WORKER_AND_MAIN) {
                // stop() from one of the pool's own threads overlapping with stop() from an ordinary thread
                for (int i = 0; i < X.stop_delay; i++) vf::cpu_relax();
                X.pool->run_detached([&X, g = worker_stop_guard()]() mutable {
                    int e = 0;
                    if (!g_ws_job.compare_exchange_strong(e, 1, std::memory_order_acq_rel)) return;
                    X.pool->stop();
                    g.armed = false;
                    g_ws_job.store(2, std::memory_order_release); g_ws_job.notify_all(); // last access: the round may be destroyed from now on
                });
                for (int i = 0; i < (int)(rseed % 3000); i++) vf::cpu_relax();
                X.pool->stop();
                X.stop_returned.fetch_add(1, std::memory_order_relaxed);
            } else if (tid == 0 && X.stop_mode == PS_STOP_WORKER) {
                for (int i = 0; i < X.stop_delay; i++) vf::cpu_relax();
                X.pool->run_detached([&X] {
                    X.worker_stop_started.store(1, std::memory_order_relaxed);
                    g_ws_job.store(1, std::memory_order_relaxed);
                    X.pool->stop(); // stop() invoked from one of the pool's own threads
                    X.stop_returned.store(1, std::memory_order_relaxed);
                    g_ws_job.store(2, std::memory_order_release); g_ws_job.notify_all(); // last access of this (detached) thread to the round
                });
            }
        });
        // after the closing barrier: in worker-stop mode wait until the worker's stop() returned (blocking: watchdog covers a deadlock)
        if (X.stop_mode == PS_STOP_WORKER) {
            // the stop job itself may have been rejected/cancelled if ... it cannot: nobody else stops the pool in this mode
            for (int v; (v = g_ws_job.load(std::memory_order_acquire)) < 2;) g_ws_job.wait(v, std::memory_order_acquire);
        }
        if (X.stop_mode == PS_STOP_WORKER_AND_MAIN) { // the worker's stop() must return as well (or its job was dropped by the other stop())
            for (int v; (v = g_ws_job.load(std::memory_order_acquire)) < 2;) g_ws_job.wait(v, std::memory_order_acquire);
        }
        // stop() has returned and every submission call has returned: each job must be settled NOW, while the pool object is still
        // alive - work parked in a dead pool until its destructor runs is "forgotten with a waiter left hanging"
        std::string unsettled; int unsettled_kind = -1;
        if (X.stop_mode != PS_STOP_NONE) {
            for (int s = 0; s < X.nsub && unsettled.empty(); s++) for (int i = 0; i < X.njobs[s]; i++) {
                pool_job &j = X.jobs[s][i];
                bool settled;
                if (j.fut) settled = j.fut->ready();
                else if (j.kind == PK_RUN_DETACHED) settled = j.ran.load() == 1 || j.closure_dead.load() == 1;
                else if (j.kind == PK_CURRENT) settled = j.ran.load() + j.cancelled.load() == 1 || (j.outer_ran.load() == 0 && j.closure_dead.load() == 1);
                else settled = j.ran.load() + j.cancelled.load() >= 1;
                if (!settled) { unsettled = std::string(pk_name(j.kind)) + ": still neither executed nor cancelled after stop() returned - work was forgotten in the stopped pool (it would only be released by the pool destructor)"; unsettled_kind = j.kind; break; }
            }
        }
        delete X.pool; // destructor stops (again) and joins: must return (X.pool keeps its value: late jobs only compare it)
        R.cases++;
        // ---------------- oracles at quiescence
        std::string err = unsettled; int errkind = unsettled_kind;
        int nran = 0, ncancel = 0;
        for (int s = 0; s < X.nsub; s++) for (int i = 0; i < X.njobs[s]; i++) {
            pool_job &j = X.jobs[s][i];
            int ran = j.ran.load(), can = j.cancelled.load();
            outcome fo;
            if (j.fut) {
                if (!j.fut->ready()) { if (err.empty()) { err = std::string(pk_name(j.kind)) + ": returned future is still pending after the pool is gone (waiter would hang)"; errkind = j.kind; } continue; }
                fo = read_future(*j.fut, nullptr, 0);
                if (fo.state == PS_VALUE && j.throws && err.empty()) { err = std::string(pk_name(j.kind)) + ": the job threw but the future holds a value"; errkind = j.kind; }
                if (fo.state == PS_VALUE) { if (ran != 1 && err.empty()) { err = std::string(pk_name(j.kind)) + ": future has a value but the job ran " + std::to_string(ran) + " times"; errkind = j.kind; } }
                else if (fo.state == PS_CANCELED) { can = 1; if (ran != 0 && err.empty()) { err = std::string(pk_name(j.kind)) + ": broken promise although the job ran"; errkind = j.kind; } }
                else if (fo.state == PS_EXC && fo.code == 77 && j.throws) { if (ran != 1 && err.empty()) { err = std::string(pk_name(j.kind)) + ": future holds the job's exception but the job ran " + std::to_string(ran) + " times"; errkind = j.kind; } }
                else if (err.empty()) { err = std::string(pk_name(j.kind)) + ": unexpected future state " + fo.str(); errkind = j.kind; }
            } else if (j.kind == PK_RUN_DETACHED || j.kind == PK_CURRENT) {
                if (j.closure_dead.load() != 1 && err.empty()) { err = std::string(pk_name(j.kind)) + ": job closure destroyed " + std::to_string(j.closure_dead.load()) + " times"; errkind = j.kind; }
                if (j.kind == PK_RUN_DETACHED && ran == 0) can = 1;       // dropped closure = observable cancellation (destroyed exactly once)
                if (j.kind == PK_CURRENT && ran == 0 && can == 0 && j.outer_ran.load() == 0) can = 1; // outer closure dropped: cancelled before the coroutine existed
            }
            if (err.empty() && !((ran == 1 && can == 0) || (ran == 0 && can == 1))) {
                if (ran == 0 && can == 0) err = std::string(pk_name(j.kind)) + ": work was forgotten - neither executed nor cancelled observably";
                else err = std::string(pk_name(j.kind)) + ": executed " + std::to_string(ran) + " times and cancelled " + std::to_string(can) + " times";
                errkind = j.kind;
            }
            if (err.empty() && j.off_worker.load() >= 1000) { err = std::string(pk_name(j.kind)) + ": the captured data of the job closure was corrupted on its way through the pool's function wrapper"; errkind = j.kind; }
            if (err.empty() && j.off_worker.load()) { err = std::string(pk_name(j.kind)) + ": executed on a thread that is not one of the pool's workers"; errkind = j.kind; }
            nran += ran; ncancel += can ? 1 : 0;
        }
        auto witness = [&]() {
            std::vector<std::string> js;
            for (int s = 0; s < X.nsub; s++) for (int i = 0; i < X.njobs[s]; i++) { pool_job &j = X.jobs[s][i];
                js.push_back(vf::jobj().kv("kind", pk_name(j.kind)).kv("ran", j.ran.load()).kv("cancelled", j.cancelled.load()).kv("off_worker", j.off_worker.load()).kv("future_ready", j.fut ? (int)j.fut->ready() : -1).str()); }
            return vf::jobj().kv("scenario", "pool_mt").kv("seed", (unsigned long long)o.seed).kv("round", (unsigned long long)rn).kv("desc", desc).kv("stall_plan", plan).raw("jobs", vf::jarr(js)).str();
        };
        if (!err.empty()) {
            bool forgotten = err.find("forgotten") != std::string::npos || err.find("still pending") != std::string::npos;
            R.violation(std::string(forgotten ? "monitor:forgotten|" : "monitor:exactly_once|") + pk_key(errkind), err, witness());
            (void)Xp.release(); // forgotten coroutines still reference the round
            continue;
        }
        for (int s = 0; s < X.nsub; s++) for (int i = 0; i < X.njobs[s]; i++) X.jobs[s][i].fut.reset();
        if (tracked::live.load() != live0) { R.violation("monitor:payload_balance|pool_mt", "coroutine arguments of a pool job leaked or were destroyed twice", witness()); (void)Xp.release(); continue; }
        if (copy_ticket::live.load() != tickets0) { R.violation("monitor:closure_balance|pool_mt", "instances of a job closure (copies made while it travelled through the pool) were not all destroyed: " + std::to_string(copy_ticket::live.load() - tickets0) + " left", witness()); (void)Xp.release(); continue; }
        bool nontrivial = X.stop_mode != PS_STOP_NONE;
        if (nontrivial) R.nontrivial_cases++;
        std::string sig = desc + " r" + std::to_string(nran) + "c" + std::to_string(ncancel);
        R.sig(sig, nontrivial);
        R.cls("jobs_executed", (uint64_t)nran); R.cls("jobs_cancelled", (uint64_t)ncancel);
        R.cls(std::string("stop_origin_") + (X.stop_mode == 0 ? "destructor_only" : X.stop_mode == 1 ? "coordinator" : X.stop_mode == 2 ? "second_thread" : X.stop_mode == 3 ? "pool_worker" : X.stop_mode == 4 ? "two_threads_at_once" : "pool_worker_and_thread_at_once"));
        if (ncancel && nran) R.cls("rounds_with_both_executed_and_cancelled");
        if (T.stalls_fired_last_round()) R.cls("rounds_with_stall_fired");
        if (R.samples.size() < 3 && ncancel && nran) R.sample(witness());
    }
    T.set_aux_targets(false);
}

// ---------------------------------------------------------------------------------------------
// Two pools: a job running on a worker of pool A creates, uses and stops/destroys another pool B (fork/join helper). Pool A is
// alive and not stopped afterwards, so everything submitted to it later must be EXECUTED (not merely cancelled at destruction), on
// one of A's workers. The driver waits with blocking waits; workers that silently left their loop show up as a hang (watchdog).
inline cocls::async<int> pn_await_pool(cocls::thread_pool &A, std::atomic<int> &ran, std::atomic<int> &off) {
    co_await A;
    if (!is_current(A)) off.fetch_add(1, std::memory_order_relaxed);
    ran.fetch_add(1, std::memory_order_relaxed);
    co_return 42;
}
inline cocls::async<int> pn_async_body(cocls::thread_pool &A, std::atomic<int> &ran, std::atomic<int> &off) {
    if (!is_current(A)) off.fetch_add(1, std::memory_order_relaxed);
    ran.fetch_add(1, std::memory_order_relaxed);
    co_return 42;
}
inline void pool_nested(const vf::opts &o, vf::report &R, uint64_t rounds) {
    vf::rng master(vf::mix(o.seed, 0x211));
    for (uint64_t rn = 0; rn < rounds && R.nviol() < 5; rn++) {
        vf::rng r(master.next());
        int na = 1 + (int)r.below(3), nnested = 1 + (int)r.below(3), nfollow = 1 + (int)r.below(4);
        int how[3], nb[3], kind[4];
        std::string desc = "outer workers=" + std::to_string(na) + " nested:";
        for (int i = 0; i < nnested; i++) { how[i] = (int)r.below(3); nb[i] = 1 + (int)r.below(2); desc += std::string(" ") + (how[i] == 0 ? "stop()" : how[i] == 1 ? "destructor" : "stop() from the inner worker") + "/" + std::to_string(nb[i]); }
        desc += " then:";
        for (int i = 0; i < nfollow; i++) { kind[i] = (int)r.below(3); desc += std::string(" ") + (kind[i] == 0 ? "run(fn)" : kind[i] == 1 ? "run(async)" : "co_await pool"); }
        vf::set_crash_ctx(R.prop.c_str(), "pool_nested", o.seed, rn, desc.c_str());
        std::atomic<int> inner_ran{0}, nested_ran{0}, lost_mark{0}, follow_ran[4], off{0};
        for (auto &f : follow_ran) f = 0;
        std::string err;
        {
            cocls::thread_pool A((unsigned)na);
            std::vector<std::unique_ptr<cocls::future<int>>> nf;
            for (int i = 0; i < nnested; i++) {
                int h = how[i], n = nb[i];
                nf.push_back(std::unique_ptr<cocls::future<int>>(new cocls::future<int>(A.run([&A, &inner_ran, &nested_ran, &lost_mark, h, n]() -> int {
                    int v;
                    {
                        cocls::thread_pool B((unsigned)n);
                        cocls::future<int> f = B.run([&inner_ran]() -> int { inner_ran.fetch_add(1, std::memory_order_relaxed); return 7; });
                        v = f.wait();
                        if (h == 0) B.stop();
                        else if (h == 2) { cocls::future<int> g = B.run([&B]() -> int { B.stop(); return 1; }); g.sync(); }
                    } // ~B
                    if (!is_current(A)) lost_mark.fetch_add(1, std::memory_order_relaxed); // still a worker of A
                    nested_ran.fetch_add(1, std::memory_order_relaxed);
                    return v;
                }))));
            }
            for (auto &f : nf) { f->sync(); outcome oc = read_future(*f, nullptr, 0); if (!(oc.state == PS_VALUE && oc.val == 7) && err.empty()) err = "nested fork/join job returned " + oc.str(); }
            // the outer pool is alive and was never stopped: everything submitted now must run on its workers
            std::vector<std::unique_ptr<cocls::future<int>>> ff;
            for (int i = 0; i < nfollow; i++) {
                std::atomic<int> &ran = follow_ran[i];
                if (kind[i] == 0) ff.push_back(std::unique_ptr<cocls::future<int>>(new cocls::future<int>(A.run([&A, &ran, &off]() -> int { if (!is_current(A)) off.fetch_add(1, std::memory_order_relaxed); ran.fetch_add(1, std::memory_order_relaxed); return 42; }))));
                else if (kind[i] == 1) ff.push_back(std::unique_ptr<cocls::future<int>>(new cocls::future<int>(A.run(pn_async_body(A, ran, off)))));
                else ff.push_back(std::unique_ptr<cocls::future<int>>(new cocls::future<int>(pn_await_pool(A, ran, off).start())));
            }
            for (int i = 0; i < nfollow; i++) {
                ff[(size_t)i]->sync(); // blocks for ever if the outer pool lost its workers (hang verdict of the watchdog)
                outcome oc = read_future(*ff[(size_t)i], nullptr, 0);
                if (!(oc.state == PS_VALUE && oc.val == 42) && err.empty()) err = std::string("job submitted to the live outer pool after a nested pool was stopped: ") + oc.str() + " instead of being executed";
            }
        }
        R.cases++;
        if (err.empty() && inner_ran.load() != nnested) err = "inner jobs ran " + std::to_string(inner_ran.load()) + " times, expected " + std::to_string(nnested);
        if (err.empty() && nested_ran.load() != nnested) err = "nested jobs ran " + std::to_string(nested_ran.load()) + " times, expected " + std::to_string(nnested);
        for (int i = 0; i < nfollow && err.empty(); i++) if (follow_ran[i].load() != 1) err = "follow-up job #" + std::to_string(i) + " executed " + std::to_string(follow_ran[i].load()) + " times";
        if (err.empty() && lost_mark.load()) err = "a worker of the outer pool is no longer recognised as its worker (is_current) after it stopped another pool";
        if (err.empty() && off.load()) err = "follow-up job executed on a thread that is not a worker of the outer pool";
        if (!err.empty()) { R.violation("monitor:exactly_once|pool_nested", err, vf::jobj().kv("scenario", "pool_nested").kv("seed", (unsigned long long)o.seed).kv("round", (unsigned long long)rn).kv("desc", desc).str()); continue; }
        R.nontrivial_cases++;
        R.sig(desc);
        R.cls("nested_pools_stopped", (uint64_t)nnested); R.cls("jobs_executed_after_nested_stop", (uint64_t)nfollow);
        if (R.samples.size() < 2) R.sample(vf::jobj().kv("round", desc).kv("result", "all follow-up jobs executed once on the outer pool's workers").str());
    }
}

// ---------------------------------------------------------------------------------------------
// Jobs that depend on each other: m <= workers jobs are submitted back to back; job i blocks its worker until job i+1 has started
// (legal: there are enough workers). Every submission must therefore reach an idle worker of its own - a submission that wakes
// nobody leaves a job queued for ever while a worker sits idle (hang verdict).
inline cocls::async<void> pd_await_pool(cocls::thread_pool &A, std::atomic<int> *started, std::atomic<int> *next_started, std::atomic<int> &done) {
    co_await A;
    started->store(1, std::memory_order_release); started->notify_all();
    if (next_started) next_started->wait(0, std::memory_order_acquire); // really blocked (futex): a lost job is a provable hang
    done.fetch_add(1, std::memory_order_relaxed); done.notify_all();
}
inline void pool_dependent(const vf::opts &o, vf::report &R, uint64_t rounds) {
    vf::rng master(vf::mix(o.seed, 0x311));
    for (uint64_t rn = 0; rn < rounds && R.nviol() < 5; rn++) {
        vf::rng r(master.next());
        int nw = 2 + (int)r.below(3), m = 2 + (int)r.below((uint32_t)nw - 1);
        int kinds[4]; std::string desc = "workers=" + std::to_string(nw) + " chain:";
        for (int i = 0; i < m; i++) { kinds[i] = (int)r.below(3); desc += std::string(" ") + (kinds[i] == 0 ? "run_detached" : kinds[i] == 1 ? "run(fn)" : "co_await pool"); }
        int warm = (int)r.below(3); // sometimes the workers have already run something and went back to sleep
        vf::set_crash_ctx(R.prop.c_str(), "pool_dependent", o.seed, rn, desc.c_str());
        std::atomic<int> started[4], done{0};
        for (auto &x : started) x = 0;
        bool from_worker = false;
        {
            cocls::thread_pool A((unsigned)nw);
            for (int i = 0; i < warm; i++) { cocls::future<int> f = A.run([]() -> int { return 1; }); f.sync(); }
            if (warm && r.chance(1, 2)) usleep(200);
            std::vector<std::unique_ptr<cocls::future<int>>> futs;
            // half of the chains are submitted from INSIDE a job, i.e. from one of the pool's own worker threads (the other workers are
            // idle and must be woken for the chain: every job needs a worker of its own)
            from_worker = r.chance(1, 2);
            auto submit_all = [&] {
            for (int i = 0; i < m; i++) {
                std::atomic<int> *me = &started[i], *next = i + 1 < m ? &started[i + 1] : nullptr;
                auto body = [me, next, &done]() {
                    me->store(1, std::memory_order_release); me->notify_all();
                    if (next) next->wait(0, std::memory_order_acquire);
                    done.fetch_add(1, std::memory_order_relaxed); done.notify_all();
                };
                // (callables handed over as LVALUES are kept by reference by the library's function wrapper - hand over a copy as an rvalue)
                if (kinds[i] == 0) { auto copy = body; A.run_detached(std::move(copy)); }
                else if (kinds[i] == 1) futs.push_back(std::unique_ptr<cocls::future<int>>(new cocls::future<int>(A.run([body]() -> int { body(); return 5; }))));
                else pd_await_pool(A, me, next, done).detach();
            }
            };
            if (from_worker) { cocls::future<int> sf = A.run([&]() -> int { submit_all(); return 0; }); sf.sync(); } else submit_all();
            for (int d; (d = done.load(std::memory_order_relaxed)) < m;) done.wait(d, std::memory_order_relaxed); // watchdog: no progress + everybody asleep = hang
            for (auto &f : futs) f->sync();
        }
        R.cases++;
        if (done.load() != m) { R.violation("monitor:exactly_once|pool_dependent", "jobs completed " + std::to_string(done.load()) + " times, expected " + std::to_string(m), vf::jobj().kv("round", (unsigned long long)rn).kv("desc", desc).str()); continue; }
        R.nontrivial_cases++;
        R.sig(desc + " warm" + std::to_string(warm) + (from_worker ? " submitted from a worker" : ""));
        R.cls("chains_of_dependent_jobs_completed");
        if (from_worker) R.cls("chains_submitted_from_a_worker_thread");
        if (R.samples.size() < 2) R.sample(vf::jobj().kv("round", desc).kv("result", "every job reached a worker of its own").str());
    }
}

} // namespace scn
