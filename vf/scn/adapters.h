// scenarios for the callback adapters (C18; the concurrent column also feeds the C03 TSan workload)
#pragma once
#include <vf/team.h>
#include <vf/payload.h>
#include <vf/mstorage.h>
#include <cocls/future.h>
#include <cocls/async.h>
#include <cocls/callback_awaiter.h>
#include <cocls/future_conv.h>
#include <cocls/coro_storage.h>
#include "future.h"
#include <memory>
#include <optional>

namespace scn {
using namespace cocls::verif;

enum { AD_CALLBACK_AWAIT = 0, AD_CALLBACK_AWAIT_ALLOC, AD_MAKE_PROMISE, AD_MAKE_PROMISE_STORAGE, AD_DISCARD, AD_CONV_MEMBER, AD_CONV_MEMBER_VOID, AD_CONV_MEMBER_PROMISE,
       AD_CONV_MEMBER_VOID_PROMISE, AD_CONV_FREE, AD_CONV_FREE_CTX, AD_CALL_FN_AWAITER, AD_CONV_VIA_PROMISE, AD_NKINDS };
inline const char *ad_name(int a) {
    static const char *n[] = {"callback_await", "callback_await_alloc", "make_promise", "make_promise(storage)", "discard", "future_conv<To(Ctx::*)(From&)>",
                              "future_conv<To(Ctx::*)()>", "future_conv<sp(Ctx::*)(From&,promise&)>", "future_conv<sp(Ctx::*)(promise&)>", "future_conv<To(*)(From&)>",
                              "future_conv<To(*)(From&,Ctx*)>", "call_fn_future_awaiter", "future_conv(promise)<<fn"};
    return n[a];
}
enum { AT_BEFORE = 0, AT_LATER_SAME_THREAD = 1, AT_CONCURRENT = 2 };
inline const char *at_name(int t) { static const char *n[] = {"resolved before registration", "resolved later on the same thread", "resolved concurrently on another thread"}; return n[t]; }
constexpr int AD_SRC_VALUE = 40, AD_THROWING_INPUT = 41; // converters throw on AD_THROWING_INPUT

struct ad_round;
inline int ad_conv_free(int &x);
struct ad_ctx {
    ad_round *X = nullptr;
    int delta = 1000;
    int conv_member(int &src) { if (src == AD_THROWING_INPUT) throw vf::test_exc{77}; return src + delta; }
    int conv_member_void() { return delta; }
    cocls::suspend_point<void> conv_member_promise(int &src, cocls::promise<int> &p) { if (src == AD_THROWING_INPUT) throw vf::test_exc{77}; return p(src + delta); }
    cocls::suspend_point<void> conv_member_void_promise(cocls::promise<int> &p) { return p(delta); }
    cocls::suspend_point<void> on_done(cocls::future<int> &f) noexcept;
};
inline int ad_conv_free(int &x) { if (x == AD_THROWING_INPUT) throw vf::test_exc{77}; return x + 1000; }
inline int ad_conv_free_ctx(int &x, ad_ctx *c) { if (x == AD_THROWING_INPUT) throw vf::test_exc{77}; return x + c->delta; }

struct ad_round {
    int adapter = 0, what = 0, timing = 0; // outcome: FA_VALUE / FA_EXC / FA_DROP
    bool conv_throws = false;
    bool in_coroutine_mode = false; // the adapter is registered while a ready queue is installed (as from inside a running coroutine)
    std::optional<cocls::promise<int>> src_prom;
    std::optional<cocls::promise<void>> src_prom_void;
    std::optional<cocls::promise<tracked>> src_prom_tracked;
    // the awaited operation may also return future<int&> where the adapter is declared for int (allowed: ReturnsFuture accepts the
    // reference form, the result then refers to the resolver's object)
    bool ref_source = false; int ref_target = 0;
    std::optional<cocls::promise<int &>> src_prom_ref;
    std::atomic<int> prom_ready{0};
    std::atomic<int> cb_calls{0};
    outcome seen;
    std::unique_ptr<cocls::future<int>> out; // converters
    cocls::future<int> src_direct;            // callback_await on a future the caller owns
    vf::mon_storage storage;
    ad_ctx ctx;
    // adapter objects that must outlive the operation
    cocls::future_conv<&ad_ctx::conv_member> c_member{&ctx};
    cocls::future_conv<&ad_ctx::conv_member_void> c_member_void{&ctx};
    cocls::future_conv<&ad_ctx::conv_member_promise> c_member_promise{&ctx};
    cocls::future_conv<&ad_ctx::conv_member_void_promise> c_member_void_promise{&ctx};
    cocls::future_conv<&ad_conv_free> c_free;
    cocls::future_conv<&ad_conv_free_ctx> c_free_ctx{&ctx};
    cocls::call_fn_future_awaiter<&ad_ctx::on_done> c_callfn{ctx};
    ad_round() { ctx.X = this; }
    int src_value() const { return conv_throws ? AD_THROWING_INPUT : AD_SRC_VALUE; }
};
inline cocls::suspend_point<void> ad_ctx::on_done(cocls::future<int> &f) noexcept {
    X->seen = read_future(f, nullptr, 0);
    X->cb_calls.fetch_add(1, std::memory_order_relaxed);
    return {};
}

// the awaited operation: a future<int> whose promise is resolved according to outcome/timing
inline cocls::future<int> ad_make_src(ad_round &X) {
    if (X.timing == AT_BEFORE) {
        if (X.what == FA_VALUE) return cocls::future<int>::set_value(X.src_value());
        if (X.what == FA_EXC) return cocls::future<int>::set_exception(vf::make_exc(55));
        return cocls::future<int>::set_not_value();
    }
    return cocls::future<int>([&](cocls::promise<int> p) { X.src_prom.emplace(std::move(p)); X.prom_ready.store(1, std::memory_order_release); });
}
inline cocls::future<int &> ad_make_src_ref(ad_round &X) {
    X.ref_target = X.src_value();
    return cocls::future<int &>([&](cocls::promise<int &> p) {
        if (X.timing == AT_BEFORE) { if (X.what == FA_VALUE) p(X.ref_target); else if (X.what == FA_EXC) p(vf::make_exc(55)); else p(cocls::drop); }
        else { X.src_prom_ref.emplace(std::move(p)); X.prom_ready.store(1, std::memory_order_release); }
    });
}
inline cocls::future<void> ad_make_src_void(ad_round &X) {
    if (X.timing == AT_BEFORE) {
        if (X.what == FA_VALUE) return cocls::future<void>::set_value();
        if (X.what == FA_EXC) return cocls::future<void>::set_exception(vf::make_exc(55));
        return cocls::future<void>::set_not_value();
    }
    return cocls::future<void>([&](cocls::promise<void> p) { X.src_prom_void.emplace(std::move(p)); X.prom_ready.store(1, std::memory_order_release); });
}
inline cocls::future<tracked> ad_make_src_tracked(ad_round &X) {
    if (X.timing == AT_BEFORE) {
        if (X.what == FA_VALUE) return cocls::future<tracked>::set_value((uint64_t)AD_SRC_VALUE);
        if (X.what == FA_EXC) return cocls::future<tracked>::set_exception(vf::make_exc(55));
        return cocls::future<tracked>::set_not_value();
    }
    return cocls::future<tracked>([&](cocls::promise<tracked> p) { X.src_prom_tracked.emplace(std::move(p)); X.prom_ready.store(1, std::memory_order_release); });
}
inline void ad_resolve(ad_round &X) {
    if (X.src_prom) { auto &p = *X.src_prom; if (X.what == FA_VALUE) p(X.src_value()); else if (X.what == FA_EXC) p(vf::make_exc(55)); else p(cocls::drop); }
    if (X.src_prom_ref) { auto &p = *X.src_prom_ref; if (X.what == FA_VALUE) p(X.ref_target); else if (X.what == FA_EXC) p(vf::make_exc(55)); else p(cocls::drop); }
    if (X.src_prom_void) { auto &p = *X.src_prom_void; if (X.what == FA_VALUE) p(); else if (X.what == FA_EXC) p(vf::make_exc(55)); else p(cocls::drop); }
    if (X.src_prom_tracked) { auto &p = *X.src_prom_tracked; if (X.what == FA_VALUE) p((uint64_t)AD_SRC_VALUE); else if (X.what == FA_EXC) p(vf::make_exc(55)); else p(cocls::drop); }
}
template <typename R> void ad_record_await_result(ad_round &X, R res) {
    try {
        if constexpr (std::is_same_v<R, cocls::await_result<void>>) { res.get(); X.seen.state = PS_VALUE; }
        else { auto &v = *res; X.seen.state = PS_VALUE; X.seen.val = (uint64_t)v; }
    } catch (const vf::test_exc &e) { X.seen.state = PS_EXC; X.seen.code = e.code; }
    catch (const cocls::await_canceled_exception &) { X.seen.state = PS_CANCELED; }
    catch (...) { X.seen.state = PS_EXC; X.seen.code = -99; }
    X.cb_calls.fetch_add(1, std::memory_order_relaxed);
}

// adapters whose awaited operation yields an int: the operation is given as a functor returning future<int> or future<int&>
// (the functor is handed over as an rvalue: the library keeps lvalue callables by reference, see DESIGN 8.3a)
template <typename SrcFn> void ad_register_int(ad_round &X, SrcFn src) {
    switch (X.adapter) {
    case AD_CALLBACK_AWAIT:
        cocls::callback_await<cocls::future<int>>([&X](cocls::await_result<int> r) { ad_record_await_result(X, r); }, SrcFn(src));
        break;
    case AD_CALLBACK_AWAIT_ALLOC:
        cocls::callback_await_alloc<vf::mon_storage, cocls::future<int>>(X.storage, [&X](cocls::await_result<int> r) { ad_record_await_result(X, r); }, SrcFn(src));
        break;
    case AD_CONV_MEMBER: X.out.reset(new cocls::future<int>(X.c_member << SrcFn(src))); break;
    case AD_CONV_MEMBER_PROMISE: X.out.reset(new cocls::future<int>(X.c_member_promise << SrcFn(src))); break;
    case AD_CONV_FREE: X.out.reset(new cocls::future<int>(X.c_free << SrcFn(src))); break;
    case AD_CONV_FREE_CTX: X.out.reset(new cocls::future<int>(X.c_free_ctx << SrcFn(src))); break;
    case AD_CONV_VIA_PROMISE: {
        X.out = std::make_unique<cocls::future<int>>();
        X.c_member(X.out->get_promise()) << SrcFn(src);
        break;
    }
    case AD_CALL_FN_AWAITER: X.c_callfn << SrcFn(src); break;
    default: break;
    }
}
inline bool ad_int_source(int adapter) {
    return adapter == AD_CALLBACK_AWAIT || adapter == AD_CALLBACK_AWAIT_ALLOC || adapter == AD_CONV_MEMBER || adapter == AD_CONV_MEMBER_PROMISE || adapter == AD_CONV_FREE ||
           adapter == AD_CONV_FREE_CTX || adapter == AD_CONV_VIA_PROMISE || adapter == AD_CALL_FN_AWAITER;
}
// registers the adapter (thread 0)
inline void ad_register(ad_round &X) {
    if (ad_int_source(X.adapter)) {
        if (X.ref_source) ad_register_int(X, [&X] { return ad_make_src_ref(X); }); else ad_register_int(X, [&X] { return ad_make_src(X); });
        return;
    }
    switch (X.adapter) {
    case AD_MAKE_PROMISE:
    case AD_MAKE_PROMISE_STORAGE: {
        auto cb = [&X](cocls::future<int> &f) { X.seen = read_future(f, nullptr, 0); X.cb_calls.fetch_add(1, std::memory_order_relaxed); };
        cocls::promise<int> p = X.adapter == AD_MAKE_PROMISE ? cocls::make_promise<int>(std::move(cb)) : cocls::make_promise<int>(std::move(cb), X.storage);
        // the promise IS the registration; it is resolved at once (timing "before"), later, or by the other thread
        X.src_prom.emplace(std::move(p));
        X.prom_ready.store(1, std::memory_order_release);
        if (X.timing == AT_BEFORE) { ad_resolve(X); X.src_prom.reset(); }
        break;
    }
    default: break;
    case AD_DISCARD: cocls::discard([&X] { return ad_make_src_tracked(X); }); break;
    case AD_CONV_MEMBER_VOID: X.out.reset(new cocls::future<int>(X.c_member_void << [&X] { return ad_make_src_void(X); })); break;
    case AD_CONV_MEMBER_VOID_PROMISE: X.out.reset(new cocls::future<int>(X.c_member_void_promise << [&X] { return ad_make_src_void(X); })); break;
    }
}

inline void adapter_matrix(const vf::opts &o, vf::report &R, vf::team &T, uint64_t rounds) {
    static const int sites0[] = {coaw_suspend, aw_subchk_pre, aw_subchk_post, aw_subchk_retry, fin_pre_resolve, fin_pre_destroy, prom_claim_pre};
    static const int sites1[] = {prom_claim_pre, prom_claim_post, fut_set_post, aw_chain_pre, aw_chain_post, aw_chain_node, aw_chain_node_done};
    vf::rng master(vf::mix(o.seed, 0x18));
    for (uint64_t rn = 0; rn < rounds && R.nviol() < 5; rn++) {
        uint64_t rseed = master.next();
        vf::rng r(rseed);
        long live0 = tracked::live.load(), bad0 = tracked::bad.load();
        unsigned mse0 = vf::g_ms_errors.load();
        auto Xp = std::make_unique<ad_round>();
        ad_round &X = *Xp;
        // the full matrix is walked round-robin, random only in the stall plan / offsets
        uint64_t cell = rn % (uint64_t)(AD_NKINDS * 3 * 3);
        X.adapter = (int)(cell % AD_NKINDS); X.what = (int)((cell / AD_NKINDS) % 3); X.timing = (int)(cell / AD_NKINDS / 3);
        if (T.n < 2 && X.timing == AT_CONCURRENT) X.timing = AT_LATER_SAME_THREAD;
        bool is_conv = X.adapter >= AD_CONV_MEMBER && X.adapter != AD_CALL_FN_AWAITER;
        bool conv_from_int = X.adapter == AD_CONV_MEMBER || X.adapter == AD_CONV_MEMBER_PROMISE || X.adapter == AD_CONV_FREE || X.adapter == AD_CONV_FREE_CTX || X.adapter == AD_CONV_VIA_PROMISE;
        X.conv_throws = conv_from_int && X.what == FA_VALUE && r.chance(1, 4);
        X.in_coroutine_mode = (rn / (uint64_t)(AD_NKINDS * 3 * 3)) % 2 == 1;
        X.ref_source = ad_int_source(X.adapter) && r.chance(1, 3);
        std::string desc = std::string(X.in_coroutine_mode ? "[registered in coroutine mode] " : "") + ad_name(X.adapter) + (X.ref_source ? " [operation returns future<int&>]" : "") + " / " + fa_name(X.what) + (X.conv_throws ? " (converter throws)" : "") + " / " + at_name(X.timing);
        std::string plan = T.plan_by([&](int tid) -> std::pair<const int *, int> { return tid == 0 ? std::make_pair(sites0, 7) : std::make_pair(sites1, 7); }, r, 2);
        vf::set_crash_ctx(R.prop.c_str(), "adapter_matrix", o.seed, rn, (desc + "; " + plan).c_str());
        if (X.timing == AT_CONCURRENT) {
            T.round([&](int tid) {
                vf::start_offset(rseed, tid);
                if (tid == 0) { if (X.in_coroutine_mode) cocls::coro_queue::install_queue_and_call([&] { ad_register(X); }); else ad_register(X); }
                else if (tid == 1) { while (!X.prom_ready.load(std::memory_order_acquire)) vf::cpu_relax(); ad_resolve(X); }
            });
        } else {
            // in coroutine mode helper coroutines are only queued by the registration and start when the block ends: everything the
            // registration was given (functors, arguments) must have been taken over by value by then
            if (X.in_coroutine_mode) cocls::coro_queue::install_queue_and_call([&] { ad_register(X); }); else ad_register(X);
            if (X.timing == AT_LATER_SAME_THREAD) ad_resolve(X);
        }
        X.src_prom.reset(); X.src_prom_void.reset(); X.src_prom_tracked.reset(); X.src_prom_ref.reset();
        R.cases++;
        // ---------------- oracles
        std::string err;
        outcome expect;
        auto judge = [&]() { // verdict on the operation that has just completed on the adapter
            expect = outcome();
            if (X.what == FA_VALUE) { expect.state = PS_VALUE; expect.val = AD_SRC_VALUE; } else if (X.what == FA_EXC) { expect.state = PS_EXC; expect.code = 55; } else expect.state = PS_CANCELED;
            if (is_conv) {
                if (X.what == FA_VALUE) { if (X.conv_throws) { expect.state = PS_EXC; expect.code = 77; } else expect.val = conv_from_int ? AD_SRC_VALUE + 1000 : 1000; }
                if (!X.out->ready()) err = "outer future of the converter still pending after the source was resolved";
                else { outcome got = read_future(*X.out, nullptr, 0); if (!(got == expect)) err = "converter delivered " + got.str() + " to the outer future, expected " + expect.str(); }
            } else if (X.adapter != AD_DISCARD) {
                if (X.adapter == AD_CALLBACK_AWAIT || X.adapter == AD_CALLBACK_AWAIT_ALLOC || X.adapter == AD_MAKE_PROMISE || X.adapter == AD_MAKE_PROMISE_STORAGE || X.adapter == AD_CALL_FN_AWAITER) {
                    if (X.cb_calls.load() != 1) err = "completion callback ran " + std::to_string(X.cb_calls.load()) + " times";
                    else if (!(X.seen == expect)) err = "completion callback received " + X.seen.str() + ", expected " + expect.str();
                }
            }
        };
        judge();
        // "exactly once PER awaited operation": converter and call_fn_future_awaiter objects are made to be used again - a second (and
        // third) operation on the SAME adapter object, started after the previous one completed
        bool reusable = is_conv || X.adapter == AD_CALL_FN_AWAITER;
        for (int again = 0; again < 2 && err.empty() && reusable && r.chance(2, 3); again++) {
            X.what = (int)r.below(3); X.timing = r.chance(1, 2) ? AT_BEFORE : AT_LATER_SAME_THREAD;
            X.conv_throws = conv_from_int && X.what == FA_VALUE && r.chance(1, 4);
            X.cb_calls.store(0); X.seen = outcome(); X.out.reset(); X.prom_ready.store(0);
            desc += std::string(" ; again on the same object: ") + fa_name(X.what) + (X.conv_throws ? " (converter throws)" : "") + " / " + at_name(X.timing);
            ad_register(X);
            if (X.timing == AT_LATER_SAME_THREAD) ad_resolve(X);
            X.src_prom.reset(); X.src_prom_void.reset(); X.src_prom_tracked.reset(); X.src_prom_ref.reset();
            judge();
            if (!err.empty()) err = "second use of the adapter object: " + err;
        }
        if (err.empty() && !X.storage.balanced()) err = "helper block in the supplied storage: " + std::to_string(X.storage.allocs.load()) + " allocations, " + std::to_string(X.storage.deallocs.load()) + " releases";
        if (err.empty() && (X.adapter == AD_CALLBACK_AWAIT_ALLOC || X.adapter == AD_MAKE_PROMISE_STORAGE) && X.storage.allocs.load() != 1) err = "supplied storage was not used exactly once";
        if (err.empty() && vf::g_ms_errors.load() != mse0) err = "storage monitor: " + vf::ms_errors_str(vf::g_ms_errors.load());
        X.out.reset();
        if (err.empty() && tracked::live.load() != live0) err = "helper object not released exactly once (payload held by it: live delta " + std::to_string(tracked::live.load() - live0) + ")";
        if (err.empty() && tracked::bad.load() != bad0) err = "payload of the helper destroyed twice";
        if (!err.empty()) { R.violation(std::string("monitor:adapter|") + ad_name(X.adapter), err, vf::jobj().kv("round", (unsigned long long)rn).kv("seed", (unsigned long long)o.seed).kv("cell", desc).kv("stall_plan", plan).kv("callback_calls", X.cb_calls.load()).kv("seen", X.seen.str()).str()); (void)Xp.release(); continue; }
        R.nontrivial_cases++;
        int lostrace = T.count_event(ev_subchk_ready), parked = T.count_event(ev_subchk_pushed);
        R.sig(desc + (X.timing == AT_CONCURRENT ? (lostrace ? " [lost subscribe race]" : parked ? " [parked]" : " [found ready]") : ""));
        R.cls(std::string("timing: ") + at_name(X.timing));
        if (X.timing == AT_CONCURRENT) { R.cls("concurrent_parked_before_resolution", (uint64_t)(parked > 0)); R.cls("concurrent_lost_subscribe_race", (uint64_t)(lostrace > 0)); }
        if (R.samples.size() < 4 && X.timing == AT_CONCURRENT) R.sample(vf::jobj().kv("cell", desc).kv("callback_calls", X.cb_calls.load()).kv("observed", is_conv ? expect.str() : X.seen.str()).str());
    }
}

} // namespace scn
