// scenarios for cocls::signal (C15; MT part also feeds the C03 TSan workload)
#pragma once
#include <vf/team.h>
#include <vf/payload.h>
#include <cocls/signal.h>
#include <cocls/async.h>
#include <memory>
#include <optional>

namespace scn {
using namespace cocls::verif;

struct sl_rec { // one listener
    std::vector<int> vals;
    std::vector<const void *> addrs;
    int canceled = 0, finished = 0;
    bool forever = true;
    int kind = 0; // 0 coroutine, 1 callback
    int cb_limit = -1; // callback: returns false after this many calls
    int cb_destroyed = 0;
    bool waiting = false; // model
    size_t expect_n = 0;  // model: number of values it must have by now
    // "pausing" coroutine listener: after its first value it waits for something else (a gate) while KEEPING its emitter object, and
    // re-awaits the emitter only when the gate opens. While it is away it is not a waiting listener.
    bool pausing = false, away = false, away_done = false; int canceled_again = 0;
    std::unique_ptr<cocls::future<void>> gate; std::optional<cocls::promise<void>> gate_prom;
};
inline cocls::async<void> sl_listener(cocls::signal<int>::emitter em, sl_rec &rec) {
    try {
        do {
            int &v = co_await em;
            rec.vals.push_back(v);
            rec.addrs.push_back(&v);
        } while (rec.forever);
    } catch (const cocls::await_canceled_exception &) { rec.canceled++; }
    rec.finished++;
}
inline cocls::async<void> sl_listener_pausing(cocls::signal<int>::emitter em, sl_rec &rec) {
    try {
        int &v = co_await em;
        rec.vals.push_back(v); rec.addrs.push_back(&v);
        bool hv = co_await rec.gate->has_value(); // away; the emitter object stays alive in this frame
        (void)hv;
        for (;;) { int &w = co_await em; rec.vals.push_back(w); rec.addrs.push_back(&w); }
    } catch (const cocls::await_canceled_exception &) { rec.canceled++; }
    rec.finished++;
}
inline cocls::async<void> sl_listener_void(cocls::signal<void>::emitter em, sl_rec &rec) {
    try {
        do {
            co_await em;
            rec.vals.push_back(0);
        } while (rec.forever);
    } catch (const cocls::await_canceled_exception &) { rec.canceled++; }
    rec.finished++;
}
struct sl_cb_guard {
    sl_rec *r;
    explicit sl_cb_guard(sl_rec *rr) : r(rr) {}
    sl_cb_guard(sl_cb_guard &&o) noexcept : r(o.r) { o.r = nullptr; }
    sl_cb_guard(const sl_cb_guard &o) = delete;
    ~sl_cb_guard() { if (r) r->cb_destroyed++; }
};

inline std::string run_signal_history(vf::rng &r, std::string &trace, int &ops) {
    std::string err;
    std::deque<sl_rec> L;
    int len = 2 + (int)r.below(r.chance(1, 4) ? 40 : 14);
    bool use_void = r.chance(1, 5);
    std::optional<cocls::signal<int>> sig; std::optional<cocls::signal<int>::collector> col, col2;
    std::optional<cocls::signal<void>> vsig; std::optional<cocls::signal<void>::collector> vcol;
    cocls::signal<int>::emitter dead_em; cocls::signal<void>::emitter dead_vem;
    if (use_void) { vsig.emplace(); vcol.emplace(vsig->get_collector()); dead_vem = vsig->get_emitter(); }
    else { sig.emplace(); col.emplace(sig->get_collector()); dead_em = sig->get_emitter(); }
    bool connected = true;
    int next_val = 1;
    int lvalue_store = 0;
    auto check_all = [&](const char *after) {
        for (size_t i = 0; i < L.size() && err.empty(); i++) {
            sl_rec &l = L[i];
            if (l.vals.size() != l.expect_n) err = std::string("after ") + after + ": listener #" + std::to_string(i) + (l.kind ? " (callback)" : " (coroutine)") + " received " + std::to_string(l.vals.size()) + " values, expected " + std::to_string(l.expect_n);
        }
    };
    auto emit = [&](int form) {
        int v = next_val++;
        for (auto &l : L) if (l.waiting) {
            l.expect_n++;
            if (l.kind == 0 && !l.forever) l.waiting = false;
            if (l.kind == 0 && l.pausing && !l.away && l.gate_prom) { l.waiting = false; l.away = true; }
            if (l.kind == 1 && l.cb_limit >= 0 && (int)l.expect_n >= l.cb_limit) l.waiting = false;
        }
        size_t before[64]; for (size_t i = 0; i < L.size() && i < 64; i++) before[i] = L[i].vals.size();
        // the collector is called from ordinary code, or while a ready queue is installed (as from inside a coroutine: the listeners are
        // only queued by the discarded suspend point and run when the block ends - the value must still be there for them)
        bool in_coro = r.chance(1, 3);
        auto call = [&](auto &&fn) { if (in_coro) cocls::coro_queue::install_queue_and_call(fn); else fn(); };
        if (in_coro) trace += "[coroutine mode] ";
        if (!use_void && !col && !col2) col.emplace(sig->get_collector()); // every collector was dropped, the signal object still connects
        auto &C1 = col ? col : col2; auto &C2 = col2 ? col2 : col;
        if (use_void) { trace += "emit() "; call([&] { (*vcol)(); }); }
        else if (form == 0) { trace += "emit(value) "; call([&] { (*C1)((long)v); }); }
        else if (form == 1) { trace += "emit(rvalue) "; call([&] { int tmp = v; (*C1)(std::move(tmp)); }); }
        else { trace += "emit(lvalue) "; lvalue_store = v; call([&] { (*C2)(lvalue_store); }); }
        check_all("emit");
        for (size_t i = 0; i < L.size() && i < 64 && err.empty(); i++) {
            sl_rec &l = L[i];
            if (l.vals.size() == before[i] + 1) {
                if (!use_void && l.vals.back() != v) err = "listener received " + std::to_string(l.vals.back()) + " instead of " + std::to_string(v);
                if (!use_void && form == 2 && l.kind == 0 && l.addrs.back() != &lvalue_store) err = "lvalue-reference emission did not deliver the caller's object (address differs)";
            }
        }
    };
    for (int step = 0; step < len && err.empty(); step++) {
        uint32_t x = r.below(100);
        ops++;
        if (x < 25 && L.size() < 12) { // coroutine listener
            L.emplace_back(); sl_rec &l = L.back();
            l.kind = 0; l.forever = r.chance(3, 4);
            l.pausing = !use_void && connected && r.chance(1, 4);
            if (l.pausing) { l.forever = true; l.gate = std::make_unique<cocls::future<void>>(); l.gate_prom.emplace(l.gate->get_promise()); }
            trace += l.pausing ? "listen-pausing " : l.forever ? "listen " : "listen-once ";
            if (l.pausing) sl_listener_pausing(sig->get_emitter(), l).detach();
            else if (use_void) sl_listener_void(connected ? vsig->get_emitter() : dead_vem, l).detach(); else sl_listener(connected ? sig->get_emitter() : dead_em, l).detach();
            if (connected) { l.waiting = true; if (l.finished) err = "listener finished before any signal"; }
            else { if (l.canceled != 1 || !l.finished) err = "awaiting a disconnected emitter did not fail immediately with await_canceled_exception"; }
        } else if (x < 38 && L.size() < 12 && connected) { // callback listener
            L.emplace_back(); sl_rec &l = L.back();
            l.kind = 1; l.cb_limit = r.chance(1, 2) ? 1 + (int)r.below(3) : -1; l.waiting = true;
            trace += "connect(" + std::to_string(l.cb_limit) + ") ";
            sl_rec *lp = &l;
            if (use_void) vsig->connect([lp, g = sl_cb_guard(lp)]() { lp->vals.push_back(0); return lp->cb_limit < 0 || (int)lp->vals.size() < lp->cb_limit; });
            else sig->connect([lp, g = sl_cb_guard(lp)](auto &&v) { lp->vals.push_back(v); lp->addrs.push_back(&v); return lp->cb_limit < 0 || (int)lp->vals.size() < lp->cb_limit; });
        } else if (x >= 77 && x < 80) { // an away listener comes back and awaits its emitter again
            for (auto &l : L) if (l.away && l.gate_prom) {
                trace += "listener-returns ";
                (*l.gate_prom)(); l.gate_prom.reset(); l.away = false;
                if (connected) l.waiting = true;
                else if (l.canceled != 1 || !l.finished) err = "a listener that came back and awaited the DISCONNECTED emitter was not failed immediately with await_canceled_exception";
                break;
            }
            check_all("listener-returns");
        } else if (x < 80 && connected) emit((int)r.below(3));
        else if (x < 86 && connected && !use_void && !col2) { trace += "collector-copy "; if (col) col2.emplace(*col); else col2.emplace(sig->get_collector()); }
        else if (x < 88 && connected && !use_void && col2) { trace += "signal-from-collector "; cocls::signal<int> s2 = *col2; (void)s2; }
        else if (x < 90 && connected && !use_void) { // give up ONE of several strong handles (or move / assign collectors): still connected, nobody may be cancelled
            int nh = (sig ? 1 : 0) + (col ? 1 : 0) + (col2 ? 1 : 0);
            uint32_t w = r.below(4);
            if (w == 0 && col && col2) { trace += "collector-move-assign "; *col = std::move(*col2); col2.reset(); }
            else if (w == 1 && col && col2) { trace += "collector-copy-assign "; *col2 = *col; }
            else if (nh >= 2) {
                if (sig && (w == 2 || !col)) { trace += "drop-signal-object "; sig.reset(); }
                else if (col) { trace += "drop-collector "; col.reset(); }
                else if (col2) { trace += "drop-collector-copy "; col2.reset(); }
            }
            for (size_t i = 0; i < L.size() && err.empty(); i++) if (L[i].canceled) { if (L[i].waiting) err = "listener #" + std::to_string(i) + " was cancelled although a collector / signal handle still exists (disconnected too early)"; }
            if (!sig && err.empty()) { // listeners are created from the signal object: re-create it from a collector (documented conversion)
                auto &C = col ? col : col2; sig.emplace(cocls::signal<int>(*C));
            }
            check_all("handle shuffle");
        }
        else if (x < 96 && connected) { // drop every handle: disconnect
            trace += "disconnect ";
            connected = false;
            col.reset(); col2.reset(); sig.reset(); vcol.reset(); vsig.reset();
            for (size_t i = 0; i < L.size() && err.empty(); i++) {
                sl_rec &l = L[i];
                if (l.kind == 0) {
                    if (l.waiting && (l.canceled != 1 || !l.finished)) err = "waiting listener #" + std::to_string(i) + " was not resumed with await_canceled_exception when the last handle was dropped";
                    if (!l.waiting && l.canceled != 0) err = "listener that was not waiting saw a cancellation";
                } else if (l.cb_destroyed != 1) err = "callback listener #" + std::to_string(i) + " released " + std::to_string(l.cb_destroyed) + " times at disconnect";
                l.waiting = false;
            }
            check_all("disconnect");
        }
    }
    if (err.empty() && connected) {
        trace += "disconnect ";
        col.reset(); col2.reset(); sig.reset(); vcol.reset(); vsig.reset();
        for (size_t i = 0; i < L.size() && err.empty(); i++) {
            sl_rec &l = L[i];
            if (l.kind == 0 && l.waiting && (l.canceled != 1 || !l.finished)) err = "waiting listener was not cancelled at final disconnect";
            if (l.kind == 1 && l.cb_destroyed != 1) err = "callback listener released " + std::to_string(l.cb_destroyed) + " times";
        }
        check_all("final disconnect");
    }
    for (auto &l : L) if (l.away && l.gate_prom) { (*l.gate_prom)(); l.gate_prom.reset(); l.away = false; if (err.empty() && (l.canceled != 1 || !l.finished)) err = "a listener that came back after the disconnect was not failed immediately"; }
    for (size_t i = 0; i < L.size() && err.empty(); i++) {
        if (L[i].kind == 0 && !L[i].finished) err = "a coroutine listener never finished";
        if (L[i].kind == 0 && L[i].finished > 1) err = "a coroutine listener finished twice";
    }
    return err;
}
// ---------------------------------------------------------------------------------------------
// hook_up(): the listener registers its collector with a signal generator atomically with its first suspension, so that it is woken
// "by the very first emitted signal" - including a value the generator emits synchronously from inside the registration call
// ("current value on subscribe"). Every hooked listener owns a private signal; the generator keeps the collectors.
struct sl_generator { std::vector<cocls::signal<int>::collector> cols; std::vector<int> owner; int registrations = 0; };
inline cocls::async<void> sl_hook_listener(sl_generator &G, sl_rec &rec, int idx, int emit_on_register) {
    auto e = cocls::signal<int>::hook_up([&G, idx, emit_on_register](cocls::signal<int>::collector c) {
        G.cols.push_back(std::move(c)); G.owner.push_back(idx); G.registrations++;
        if (emit_on_register >= 0) G.cols.back()(emit_on_register); // the generator reports its current value right away
    });
    try {
        do {
            int &v = co_await e;
            rec.vals.push_back(v);
            if (rec.pausing && rec.gate && !rec.away_done) { // busy elsewhere for a while, the hooked emitter object stays alive
                rec.away = true; rec.away_done = true;
                bool hv = co_await rec.gate->has_value(); (void)hv;
                rec.away = false;
            }
        } while (rec.forever);
    } catch (const cocls::await_canceled_exception &) { rec.canceled++; }
    if (rec.canceled) { // awaiting the (now disconnected) hooked emitter AGAIN must fail immediately as well - not suspend for ever
        try { int &v = co_await e; (void)v; rec.vals.push_back(-12345); } catch (const cocls::await_canceled_exception &) { rec.canceled_again++; }
    }
    rec.finished++;
}
inline std::string run_hookup_history(vf::rng &r, std::string &trace, int &ops) {
    std::string err;
    std::deque<sl_rec> L;
    std::vector<std::vector<int>> want;
    sl_generator G;
    int len = 2 + (int)r.below(14), next_val = 1;
    trace = "[hook_up] ";
    auto check_all = [&](const char *after) {
        for (size_t i = 0; i < L.size() && err.empty(); i++) if (L[i].vals != want[i]) {
            std::string got, exp; for (int v : L[i].vals) got += std::to_string(v) + " "; for (int v : want[i]) exp += std::to_string(v) + " ";
            err = std::string("after ") + after + ": hooked listener #" + std::to_string(i) + " received [" + got + "], expected [" + exp + "]";
        }
    };
    for (int step = 0; step < len && err.empty(); step++) {
        uint32_t x = r.below(100); ops++;
        if (x < 40 && L.size() < 8) {
            L.emplace_back(); want.emplace_back(); sl_rec &l = L.back();
            l.forever = r.chance(3, 4);
            l.pausing = l.forever && r.chance(1, 3);
            if (l.pausing) { l.gate = std::make_unique<cocls::future<void>>(); l.gate_prom.emplace(l.gate->get_promise()); }
            int first = r.chance(1, 2) ? next_val++ : -1;
            bool in_coro = r.chance(1, 3);
            trace += std::string(in_coro ? "[coroutine mode] " : "") + (l.forever ? "hook_up" : "hook_up-once") + (first >= 0 ? "(emits on registration) " : " ");
            int idx = (int)L.size() - 1;
            if (in_coro) cocls::coro_queue::install_queue_and_call([&] { sl_hook_listener(G, l, idx, first).detach(); }); else sl_hook_listener(G, l, idx, first).detach();
            l.waiting = true;
            if (first >= 0) { want.back().push_back(first); if (!l.forever || l.pausing) l.waiting = false; }
            if (G.registrations != idx + 1 && err.empty()) err = "registration function of hook_up was not called exactly once at the first co_await";
            check_all("hook_up");
        } else if (x < 90 && !G.cols.empty()) {
            int v = next_val++;
            bool in_coro = r.chance(1, 3);
            trace += std::string(in_coro ? "[coroutine mode] " : "") + "emit ";
            for (size_t i = 0; i < L.size(); i++) if (L[i].waiting) { want[i].push_back(v); if (!L[i].forever || (L[i].pausing && L[i].gate_prom)) L[i].waiting = false; }
            auto doit = [&] { for (auto &c : G.cols) c(v); };
            if (in_coro) cocls::coro_queue::install_queue_and_call(doit); else doit();
            check_all("emit");
        } else if (x >= 96) { // an away listener comes back and awaits its hooked emitter again
            for (size_t i = 0; i < L.size(); i++) if (L[i].pausing && L[i].gate_prom && L[i].away) {
                trace += "hooked-listener-returns ";
                bool connected_i = false; for (int ow : G.owner) if (ow == (int)i) connected_i = true;
                (*L[i].gate_prom)(); L[i].gate_prom.reset();
                if (connected_i) L[i].waiting = true;
                else if (L[i].canceled != 1 || !L[i].finished) err = "a hooked listener that came back after its collector was dropped was not failed immediately with await_canceled_exception (suspended for ever)";
                break;
            }
            check_all("hooked-listener-returns");
        } else if (x < 96 && !G.cols.empty()) {
            trace += "generator drops all collectors ";
            G.cols.clear(); G.owner.clear();
            for (size_t i = 0; i < L.size() && err.empty(); i++) {
                if (L[i].waiting && (L[i].canceled != 1 || !L[i].finished)) err = "waiting hooked listener #" + std::to_string(i) + " was not cancelled when the generator dropped its collector";
                L[i].waiting = false;
            }
            check_all("drop");
        }
    }
    G.cols.clear(); G.owner.clear();
    for (auto &l : L) if (l.gate_prom) { (*l.gate_prom)(); l.gate_prom.reset(); }
    for (size_t i = 0; i < L.size() && err.empty(); i++) if (L[i].canceled && L[i].canceled_again != 1) err = "hooked listener #" + std::to_string(i) + ": awaiting the disconnected emitter again after the cancellation did not fail immediately";
    for (size_t i = 0; i < L.size() && err.empty(); i++) if (L[i].finished != 1) err = "hooked listener #" + std::to_string(i) + " finished " + std::to_string(L[i].finished) + " times after its collector was dropped";
    if (err.empty()) check_all("final drop");
    return err;
}
// ---------------------------------------------------------------------------------------------
// Values whose move empties the source (std::string): ONE emission is shared by every listener waiting at that moment - coroutine
// listeners and connected callbacks that take the value by value, by const reference or by forwarding reference, registered in any
// order. Each of them must receive exactly the emitted text, whichever collector form (temporary, lvalue, copy of an lvalue) was used.
inline cocls::async<void> ss_listener(cocls::signal<std::string>::emitter em, std::vector<std::string> &got, int &canceled) {
    try { for (;;) { std::string &v = co_await em; got.push_back(v); } }
    catch (const cocls::await_canceled_exception &) { canceled++; }
}
inline void signal_string_values(const vf::opts &o, vf::report &R, uint64_t cases) {
    vf::rng master(vf::mix(o.seed, 0x15a));
    for (uint64_t cn = 0; cn < cases && R.nviol() < 5; cn++) {
        vf::rng r(master.next());
        vf::set_crash_ctx(R.prop.c_str(), "signal_string_values", o.seed, cn);
        std::string err, desc;
        int nl = 2 + (int)r.below(5);
        std::vector<std::vector<std::string>> got((size_t)nl);
        std::vector<int> canceled((size_t)nl, 0), limit((size_t)nl, -1), kind((size_t)nl, 0);
        std::vector<std::string> emitted;
        {
            cocls::signal<std::string> sig;
            auto col = sig.get_collector();
            for (int i = 0; i < nl; i++) {
                kind[(size_t)i] = (int)r.below(4); // 0 coroutine, 1 callback by value, 2 callback by const reference, 3 callback by forwarding reference
                if (kind[(size_t)i] && r.chance(1, 4)) limit[(size_t)i] = 1 + (int)r.below(3);
                auto *g = &got[(size_t)i]; int lim = limit[(size_t)i];
                switch (kind[(size_t)i]) {
                case 0: ss_listener(sig.get_emitter(), *g, canceled[(size_t)i]).detach(); desc += "coroutine,"; break;
                case 1: sig.connect([g, lim](std::string v) { g->push_back(std::move(v)); return lim < 0 || (int)g->size() < lim; }); desc += "callback(by value),"; break;
                case 2: sig.connect([g, lim](const std::string &v) { g->push_back(v); return lim < 0 || (int)g->size() < lim; }); desc += "callback(const&),"; break;
                default: sig.connect([g, lim](auto &&v) { g->push_back(v); return lim < 0 || (int)g->size() < lim; }); desc += "callback(auto&&),"; break;
                }
            }
            int ne = 1 + (int)r.below(5);
            for (int e = 0; e < ne; e++) {
                std::string text = "value-" + std::to_string(cn) + "-" + std::to_string(e) + "-long enough to live on the heap, not in the small buffer";
                emitted.push_back(text);
                switch (r.below(3)) {
                case 0: col(std::string(text)); desc += " emit(temporary)"; break;
                case 1: { std::string lv = text; col(lv); desc += " emit(lvalue)"; break; }
                default: { std::string lv = text; col(std::move(lv)); desc += " emit(moved lvalue)"; break; }
                }
            }
        } // last handle gone: coroutine listeners are cancelled
        R.cases++;
        for (int i = 0; i < nl && err.empty(); i++) {
            size_t want = limit[(size_t)i] < 0 ? emitted.size() : std::min(emitted.size(), (size_t)limit[(size_t)i]);
            if (got[(size_t)i].size() != want) err = "listener #" + std::to_string(i) + " received " + std::to_string(got[(size_t)i].size()) + " values, expected " + std::to_string(want);
            for (size_t k = 0; k < got[(size_t)i].size() && k < emitted.size() && err.empty(); k++)
                if (got[(size_t)i][k] != emitted[k]) err = "listener #" + std::to_string(i) + " received '" + got[(size_t)i][k].substr(0, 24) + "' for emission " + std::to_string(k) + " instead of the emitted text (value damaged by another listener of the same emission)";
            if (err.empty() && kind[(size_t)i] == 0 && canceled[(size_t)i] != 1) err = "coroutine listener was not cancelled exactly once at disconnect";
        }
        if (!err.empty()) { R.violation("monitor:delivery|signal_string_values", err, vf::jobj().kv("case", (unsigned long long)cn).kv("seed", (unsigned long long)o.seed).kv("desc", desc).str()); continue; }
        R.nontrivial_cases++;
        R.sig(desc);
        R.cls("string_emissions", (uint64_t)emitted.size());
        if (R.samples.size() < 2) R.sample(vf::jobj().kv("listeners_and_emissions", desc).kv("result", "every listener received exactly the emitted texts").str());
    }
}

// ---------------------------------------------------------------------------------------------
// Emissions that construct the value in place from several arguments - and whose constructor sometimes THROWS. The exception belongs
// to the caller of the collector; the listeners that were waiting are still waiting afterwards: they receive the next value, are
// cancelled exactly once at disconnect, and callback objects are released exactly once.
struct st_val {
    std::string text; int n;
    st_val(const std::string &t, int nn, bool boom) : text(t), n(nn) { if (boom) throw vf::test_exc{31}; }
};
inline cocls::async<void> st_listener(cocls::signal<st_val>::emitter em, std::vector<int> &got, int &canceled) {
    try { for (;;) { st_val &v = co_await em; got.push_back(v.text.size() > 20 ? v.n : -1); } }
    catch (const cocls::await_canceled_exception &) { canceled++; }
}
struct st_cb_guard { int *released; explicit st_cb_guard(int *r) : released(r) {} st_cb_guard(st_cb_guard &&o) noexcept : released(o.released) { o.released = nullptr; } st_cb_guard(const st_cb_guard &) = delete; ~st_cb_guard() { if (released) (*released)++; } };
inline void signal_throwing_values(const vf::opts &o, vf::report &R, uint64_t cases) {
    vf::rng master(vf::mix(o.seed, 0x15b));
    for (uint64_t cn = 0; cn < cases && R.nviol() < 5; cn++) {
        vf::rng r(master.next());
        vf::set_crash_ctx(R.prop.c_str(), "signal_throwing_values", o.seed, cn);
        std::string err, desc;
        int nl = 1 + (int)r.below(5);
        std::vector<std::vector<int>> got((size_t)nl); std::vector<int> canceled((size_t)nl, 0), released((size_t)nl, 0), kind((size_t)nl, 0);
        std::vector<int> emitted; int thrown = 0, escaped = 0;
        {
            cocls::signal<st_val> sig;
            auto col = sig.get_collector();
            for (int i = 0; i < nl; i++) {
                kind[(size_t)i] = (int)r.below(2);
                auto *g = &got[(size_t)i];
                if (kind[(size_t)i] == 0) { st_listener(sig.get_emitter(), *g, canceled[(size_t)i]).detach(); desc += "coroutine,"; }
                else { sig.connect([g, gd = st_cb_guard(&released[(size_t)i])](auto &&v) { g->push_back(v.text.size() > 20 ? v.n : -1); return true; }); desc += "callback,"; }
            }
            int ne = 2 + (int)r.below(6);
            for (int e = 0; e < ne; e++) {
                bool boom = r.chance(1, 3);
                std::string text = "constructed in place " + std::to_string(cn) + "/" + std::to_string(e);
                try { col(text, e, boom); emitted.push_back(e); desc += " emit(in place)"; }
                catch (const vf::test_exc &) { escaped++; desc += " emit(constructor throws)"; }
                thrown += boom;
            }
        }
        R.cases++;
        if (escaped != thrown) err = "the constructor's exception did not reach the caller of the collector";
        for (int i = 0; i < nl && err.empty(); i++) {
            if (got[(size_t)i] != emitted) err = std::string(kind[(size_t)i] ? "callback" : "coroutine") + " listener #" + std::to_string(i) + " received " + std::to_string(got[(size_t)i].size()) + " of the " + std::to_string(emitted.size()) + " successfully emitted values (an emission whose value constructor threw must leave the waiting listeners waiting)";
            else if (kind[(size_t)i] == 0 && canceled[(size_t)i] != 1) err = "coroutine listener cancelled " + std::to_string(canceled[(size_t)i]) + " times at disconnect";
            else if (kind[(size_t)i] == 1 && released[(size_t)i] != 1) err = "callback object released " + std::to_string(released[(size_t)i]) + " times at disconnect";
        }
        if (!err.empty()) { R.violation("monitor:delivery|signal_throwing_values", err, vf::jobj().kv("case", (unsigned long long)cn).kv("seed", (unsigned long long)o.seed).kv("desc", desc).str()); continue; }
        R.nontrivial_cases++;
        R.sig(desc);
        if (thrown) R.cls("histories_with_a_throwing_value_constructor");
    }
}

inline void signal_history(const vf::opts &o, vf::report &R, uint64_t histories) {
    vf::rng master(vf::mix(o.seed, 0x15));
    for (uint64_t hn = 0; hn < histories && R.nviol() < 5; hn++) {
        vf::rng r(master.next());
        vf::set_crash_ctx(R.prop.c_str(), "signal_history", o.seed, hn);
        std::string trace; int ops = 0;
        std::string err = hn % 5 == 4 ? run_hookup_history(r, trace, ops) : run_signal_history(r, trace, ops);
        R.cases++;
        if (!err.empty()) { R.violation("monitor:delivery|signal_history", err, vf::jobj().kv("history", (unsigned long long)hn).kv("ops", trace).kv("disagreement", err).str()); continue; }
        if (ops >= 3) { R.nontrivial_cases++; R.sig(trace); }
        if (R.samples.size() < 3 && ops > 8) R.sample(vf::jobj().kv("ops", trace).kv("result", "every emission reached exactly the listeners waiting at the call").str());
    }
}

// ---------------------------------------------------------------------------------------------
struct smt_listener { std::vector<int> vals; std::atomic<int> canceled{0}, finished{0}; uint64_t t_arrived = 0; };
struct smt_round {
    std::optional<cocls::signal<int>> sig;           // owned and used by thread 0 only
    cocls::signal<int>::emitter em[3];               // weak handles created in setup, one per listener thread
    smt_listener L[3]; int nl = 1;
    int nemit = 0; uint64_t t_emit[16];
};
inline cocls::async<void> smt_coro(cocls::signal<int>::emitter em, smt_listener &l) {
    try { for (;;) { int &v = co_await em; l.vals.push_back(v); if (l.vals.size() > 100) break; } }
    catch (const cocls::await_canceled_exception &) { l.canceled.fetch_add(1, std::memory_order_relaxed); }
    l.finished.fetch_add(1, std::memory_order_relaxed);
}
inline void signal_mt(const vf::opts &o, vf::report &R, vf::team &T, uint64_t rounds) {
    static const int sites_emit[] = {sig_emit_pre, sig_state_dtor, aw_chain_pre, aw_chain_post, aw_chain_node, aw_chain_node_done};
    static const int sites_listen[] = {sig_suspend_locked, aw_sub_pre, aw_sub_post, sig_resume};
    vf::rng master(vf::mix(o.seed, 0x115));
    const uint64_t margin = 3000;
    for (uint64_t rn = 0; rn < rounds && R.nviol() < 5; rn++) {
        uint64_t rseed = master.next();
        vf::rng r(rseed);
        auto Xp = std::make_unique<smt_round>();
        smt_round &X = *Xp;
        X.sig.emplace();
        X.nl = 1 + (int)r.below((uint32_t)std::min(3, T.n - 1));
        for (int i = 0; i < X.nl; i++) X.em[i] = X.sig->get_emitter();
        X.nemit = 1 + (int)r.below(8);
        int gap = (int)r.below(200);
        std::string desc = "listeners=" + std::to_string(X.nl) + " emissions=" + std::to_string(X.nemit) + " gap=" + std::to_string(gap / 50);
        std::string plan = T.plan_by([&](int tid) -> std::pair<const int *, int> { return tid == 0 ? std::make_pair(sites_emit, 6) : std::make_pair(sites_listen, 4); }, r, 1 + X.nl);
        vf::set_crash_ctx(R.prop.c_str(), "signal_mt", o.seed, rn, (desc + "; " + plan).c_str());
        T.round([&](int tid) {
            vf::start_offset(rseed, tid);
            if (tid == 0) {
                {
                    auto col = X.sig->get_collector(); // the collector is used by this thread only (documented single-threaded)
                    for (int i = 0; i < X.nemit; i++) {
                        X.t_emit[i] = vf::rdtsc();
                        col(i + 1); // ordinary code: listeners run nested right here and re-await before this returns
                        for (int k = 0; k < gap; k++) vf::cpu_relax();
                    }
                }
                X.sig.reset(); // last handle gone: every waiting listener is cancelled
            } else if (tid <= X.nl) {
                smt_listener &l = X.L[tid - 1];
                smt_coro(X.em[tid - 1], l).detach();
                l.t_arrived = vf::rdtsc();
            }
        });
        R.cases++;
        std::string err;
        int early = 0, partial = 0;
        for (int i = 0; i < X.nl && err.empty(); i++) {
            smt_listener &l = X.L[i];
            std::string w = "listener " + std::to_string(i) + ": ";
            if (l.finished.load() != 1 || l.canceled.load() != 1) { err = w + "finished " + std::to_string(l.finished.load()) + " times / cancelled " + std::to_string(l.canceled.load()) + " times after the last handle was dropped (expected 1/1)"; break; }
            for (size_t k = 1; k < l.vals.size(); k++) if (l.vals[k] != l.vals[k - 1] + 1) { err = w + "received " + std::to_string(l.vals[k]) + " after " + std::to_string(l.vals[k - 1]) + " (missed, repeated or reordered a signal while only re-awaiting)"; break; }
            if (!err.empty()) break;
            for (int v : l.vals) if (v < 1 || v > X.nemit) err = w + "received a value never emitted";
            if (!l.vals.empty() && l.vals.back() != X.nemit && err.empty()) err = w + "stopped receiving at " + std::to_string(l.vals.back()) + " of " + std::to_string(X.nemit) + " although it only re-awaits";
            // every emission whose call started after the listener's suspension returned must be received
            int first_must = -1;
            for (int e = 0; e < X.nemit; e++) if (X.t_emit[e] > l.t_arrived + margin) { first_must = e + 1; break; }
            if (err.empty() && first_must > 0 && (l.vals.empty() || l.vals.front() > first_must)) err = w + "missed emission " + std::to_string(first_must) + " that started after the listener was already waiting";
            if (l.vals.size() == (size_t)X.nemit) early++; else if (!l.vals.empty()) partial++;
        }
        auto witness = [&]() {
            std::vector<std::string> ls;
            for (int i = 0; i < X.nl; i++) ls.push_back(vf::jobj().raw("received", vf::jnums(X.L[i].vals)).kv("cancelled", X.L[i].canceled.load()).kv("finished", X.L[i].finished.load()).str());
            return vf::jobj().kv("scenario", "signal_mt").kv("seed", (unsigned long long)o.seed).kv("round", (unsigned long long)rn).kv("desc", desc).kv("stall_plan", plan).raw("listeners", vf::jarr(ls)).str();
        };
        if (!err.empty()) { R.violation("monitor:delivery|signal_mt", err, witness()); (void)Xp.release(); continue; }
        R.nontrivial_cases++;
        std::string sig = desc;
        for (int i = 0; i < X.nl; i++) sig += " " + std::to_string(X.L[i].vals.size());
        R.sig(sig);
        R.cls("listeners_that_saw_all", (uint64_t)early); R.cls("listeners_that_joined_midway", (uint64_t)partial);
        if (T.stalls_fired_last_round()) R.cls("rounds_with_stall_fired");
        if (R.samples.size() < 3 && partial) R.sample(witness());
    }
}

} // namespace scn
