// scenarios for cocls::scheduler (C12; thread-mode parts also feed the C03 TSan workload)
#pragma once
#include <vf/team.h>
#include <vf/payload.h>
#include <cocls/scheduler.h>
#include <cocls/async.h>
#include <cocls/thread_pool.h>
#include "queue.h" // outcome / observe_future
#include <memory>

namespace scn {
using namespace cocls::verif;
using sysclock = std::chrono::system_clock;
inline sysclock::time_point vt(long ms) { return sysclock::time_point(std::chrono::milliseconds(1000000 + ms)); }
inline long vms(sysclock::time_point tp) { return (long)std::chrono::duration_cast<std::chrono::milliseconds>(tp.time_since_epoch()).count() - 1000000; }

// ---------------------------------------------------------------------------------------------
// layer 1: manual mode histories against a reference multiset of pending sleeps
struct sch_entry {
    long tp; int id; int state; // 0 pending, 1 done
    std::unique_ptr<cocls::future<void>> fut;
    outcome last;
};
enum { SO_SLEEP = 0, SO_EXPIRED = 1, SO_CANCEL = 2, SO_CANCEL_E = 3, SO_REMOVE = 4, SO_DESTROY = 5 };

inline std::string scheduler_manual_one(vf::rng &r, std::string &trace, int &ops_done) {
    static char idtags[5];
    auto sch = std::make_unique<cocls::scheduler>();
    std::vector<sch_entry> E;
    long now = 0;
    int len = 2 + (int)r.below(r.chance(1, 4) ? 40 : 16);
    bool longrun = r.chance(1, 400); // long run on ONE scheduler: the heap grows to a hundred or more pending sleeps and is drained / cancelled again
    if (longrun) len = 150 + (int)r.below(450);
    int nids = 1 + (int)r.below(4);
    std::string err;
    auto idptr = [&](int id) -> const void * { return id == 0 ? nullptr : &idtags[id]; };
    auto pending_with = [&](int id) { int c = 0; for (auto &e : E) if (e.state == 0 && e.id == id) c++; return c; };
    auto min_pending = [&](long &tp) { bool any = false; for (auto &e : E) if (e.state == 0 && (!any || e.tp < tp)) { tp = e.tp; any = true; } return any; };
    // returns indices of sleepers whose observed state changed since the last scan
    auto changed = [&]() {
        std::vector<int> ch;
        for (size_t i = 0; i < E.size(); i++) {
            outcome o = observe_future(*E[i].fut);
            if (!(o == E[i].last)) { ch.push_back((int)i); E[i].last = o; }
        }
        return ch;
    };
    for (int step = 0; step < len && err.empty(); step++) {
        uint32_t x = r.below(100);
        int op = x < 38 ? SO_SLEEP : x < 62 ? SO_EXPIRED : x < 76 ? SO_CANCEL : x < 84 ? SO_CANCEL_E : x < 97 ? SO_REMOVE : SO_DESTROY;
        if (longrun) { if (step < len / 2 && x >= 38 && x < 80) op = SO_SLEEP; if (op == SO_DESTROY && step < len - 5) op = SO_EXPIRED; }
        if (!sch) break;
        ops_done++;
        switch (op) {
        case SO_SLEEP: {
            long tp = (long)r.below(13) + (r.chance(1, 3) ? now : 0) - (r.chance(1, 6) ? 3 : 0);
            int id = r.chance(1, 6) ? 0 : 1 + (int)r.below((uint32_t)nids);
            trace += "sleep(t=" + std::to_string(tp) + ",id=" + std::to_string(id) + ") ";
            E.push_back({tp, id, 0, nullptr, {}});
            E.back().fut = std::unique_ptr<cocls::future<void>>(new cocls::future<void>(sch->sleep_until(vt(tp), idptr(id))));
            auto ch = changed();
            if (!ch.empty()) err = "a sleep completed during schedule()";
            break;
        }
        case SO_EXPIRED: {
            now += (long)r.below(4);
            trace += "get_expired(now=" + std::to_string(now) + ") ";
            auto ex = sch->get_expired(vt(now));
            long mp = 0; bool anyp = min_pending(mp);
            if (std::holds_alternative<cocls::scheduler::promise>(ex)) {
                trace += "->promise ";
                std::get<cocls::scheduler::promise>(ex)();
                auto ch = changed();
                if (ch.size() != 1) { err = "resolving the expired promise completed " + std::to_string(ch.size()) + " sleeps instead of 1"; break; }
                sch_entry &e = E[(size_t)ch[0]];
                if (e.state != 0) { err = "a sleep completed twice"; break; }
                e.state = 1;
                if (e.last.state != PS_VALUE) { err = "expired sleep did not complete normally"; break; }
                if (e.tp > now) { err = "sleep with time point " + std::to_string(e.tp) + " reported expired at now=" + std::to_string(now) + " (early)"; break; }
                if (!anyp || e.tp != mp) { err = "expired sleep t=" + std::to_string(e.tp) + " returned before pending sleep t=" + std::to_string(mp) + " (not in time point order)"; break; }
            } else {
                long T = vms(std::get<sysclock::time_point>(ex));
                bool ismax = std::get<sysclock::time_point>(ex) == sysclock::time_point::max();
                trace += "->t=" + (ismax ? std::string("max") : std::to_string(T)) + " ";
                if (anyp && mp <= now) { err = "get_expired(now=" + std::to_string(now) + ") returned a time point although a sleep with t=" + std::to_string(mp) + " is due"; break; }
                if (anyp && (ismax || T > mp)) { err = "next wake-up time " + (ismax ? std::string("max") : std::to_string(T)) + " is later than the earliest pending sleep t=" + std::to_string(mp) + " (sleeper would be late)"; break; }
                if (!changed().empty()) err = "a sleep completed although get_expired returned a time point";
            }
            break;
        }
        case SO_CANCEL:
        case SO_CANCEL_E: {
            int id = 1 + (int)r.below((uint32_t)nids);
            if (r.chance(1, 12)) id = 0;
            int code = 1000 + step;
            int expect = pending_with(id);
            trace += std::string(op == SO_CANCEL ? "cancel" : "cancel_e") + "(id=" + std::to_string(id) + ") ";
            bool res = op == SO_CANCEL ? (bool)sch->cancel(idptr(id)) : (bool)sch->cancel(idptr(id), vf::make_exc(code));
            trace += res ? "->true " : "->false ";
            auto ch = changed();
            if (res != (expect > 0)) { err = std::string("cancel(id=") + std::to_string(id) + ") returned " + (res ? "true" : "false") + " while " + std::to_string(expect) + " pending sleep(s) carry that id"; break; }
            if (!res) { if (!ch.empty()) err = "cancel returned false but a sleep changed state"; break; }
            if (ch.size() != 1) { err = "cancel completed " + std::to_string(ch.size()) + " sleeps instead of exactly 1"; break; }
            {
                sch_entry &e = E[(size_t)ch[0]];
                if (e.state != 0) { err = "cancel completed an already completed sleep"; break; }
                e.state = 1;
                if (e.id != id) { err = "cancel(id=" + std::to_string(id) + ") hit a sleep with id=" + std::to_string(e.id); break; }
                if (op == SO_CANCEL ? e.last.state != PS_CANCELED : !(e.last.state == PS_EXC && e.last.code == code)) err = "cancelled sleep observed " + e.last.str();
            }
            break;
        }
        case SO_REMOVE: {
            int id = 1 + (int)r.below((uint32_t)nids);
            int expect = pending_with(id);
            int action = (int)r.below(3);
            trace += "remove(id=" + std::to_string(id) + ")";
            {
                cocls::scheduler::promise p = sch->remove(idptr(id));
                bool got = (bool)p;
                trace += got ? "->promise " : "->empty ";
                if (got != (expect > 0)) { err = std::string("remove(id=") + std::to_string(id) + ") returned " + (got ? "a promise" : "nothing") + " while " + std::to_string(expect) + " pending sleep(s) carry that id"; break; }
                if (got) { if (action == 0) p(); else if (action == 1) p(vf::make_exc(77)); /* else dropped at scope end */ }
            }
            auto ch = changed();
            if (expect == 0) { if (!ch.empty()) err = "remove returned nothing but a sleep changed state"; break; }
            if (ch.size() != 1) { err = "removed promise completed " + std::to_string(ch.size()) + " sleeps instead of 1"; break; }
            {
                sch_entry &e = E[(size_t)ch[0]];
                if (e.state != 0) { err = "remove completed an already completed sleep"; break; }
                e.state = 1;
                if (e.id != id) { err = "remove(id) returned the promise of another id"; break; }
                int want = action == 0 ? PS_VALUE : action == 1 ? PS_EXC : PS_CANCELED;
                if (e.last.state != want) err = "removed sleep observed " + e.last.str();
            }
            break;
        }
        case SO_DESTROY: {
            trace += "destroy ";
            sch.reset();
            break;
        }
        }
    }
    if (sch) { trace += "destroy "; sch.reset(); }
    if (err.empty()) {
        auto ch = changed();
        for (auto &e : E) {
            if (e.state == 0) { if (e.last.state != PS_CANCELED) { err = "sleep pending at destruction observed " + e.last.str() + " instead of cancelled"; break; } }
        }
        for (int i : ch) if (E[(size_t)i].state != 0 && err.empty()) err = "a completed sleep changed state at destruction";
    }
    return err;
}

inline void scheduler_manual(const vf::opts &o, vf::report &R, uint64_t histories) {
    vf::rng master(vf::mix(o.seed, 0x12));
    for (uint64_t hn = 0; hn < histories && R.nviol() < 5; hn++) {
        vf::rng r(master.next());
        vf::set_crash_ctx(R.prop.c_str(), "scheduler_manual", o.seed, hn);
        std::string trace; int ops = 0;
        std::string err = scheduler_manual_one(r, trace, ops);
        R.cases++;
        if (!err.empty()) {
            R.violation("monitor:model_mismatch|scheduler_manual", err,
                        vf::jobj().kv("scenario", "scheduler_manual").kv("seed", (unsigned long long)o.seed).kv("history", (unsigned long long)hn).kv("ops", trace).kv("disagreement", err).str());
            continue;
        }
        if (ops >= 3) { R.nontrivial_cases++; R.sig(trace); }
        if (R.samples.size() < 3 && ops > 8) R.sample(vf::jobj().kv("ops", trace).kv("result", "agrees with the reference multiset after every step").str());
    }
}

// ---------------------------------------------------------------------------------------------
// layer 2: start(awaitable) in one thread under a virtual clock
struct vstuck {};
struct vclock {
    static inline long now_ms = 0;
    static inline bool stuck = false; // worker asked to wait for time_point::max() (= forever)
    static inline long waits = 0;
    static sysclock::time_point now() { return vt(now_ms); }
    static void wait_until(std::condition_variable &, std::unique_lock<std::mutex> &, sysclock::time_point tp) {
        waits++;
        if (tp == sysclock::time_point::max()) { stuck = true; throw vstuck{}; } // nothing else can ever wake this single-threaded scheduler
        long t = vms(tp);
        if (t > now_ms) now_ms = t;
    }
};
struct vsleeper {
    long tp = 0; int id = 0;
    long call_time = -1, wake_time = -1;
    int outcome_state = PS_PENDING; int code = 0;
    int wake_seq = -1;
    bool past = false;
};
struct vcancel { long at; int id; int with_code; bool result = false; long done_at = -1; int pending_before = -1; };
struct vprog {
    cocls::scheduler sch;
    std::vector<vsleeper> S;
    std::vector<vcancel> C;
    int seq = 0;
    char tags[8];
    const void *idp(int id) { return id ? &tags[id] : nullptr; }
};
inline cocls::async<void> v_sleeper(vprog &P, int i) {
    vsleeper &s = P.S[(size_t)i];
    s.call_time = vclock::now_ms;
    try {
        cocls::future<void> f = P.sch.sleep_until(vt(s.tp), P.idp(s.id));
        co_await f;
        s.outcome_state = PS_VALUE;
    } catch (const vf::test_exc &e) { s.outcome_state = PS_EXC; s.code = e.code; }
    catch (const cocls::await_canceled_exception &) { s.outcome_state = PS_CANCELED; }
    s.wake_time = vclock::now_ms;
    s.wake_seq = P.seq++;
}
inline cocls::async<void> v_canceller(vprog &P, int i) {
    vcancel &c = P.C[(size_t)i];
    {
        cocls::future<void> f = P.sch.sleep_until(vt(c.at), nullptr);
        co_await f;
    }
    int pend = 0;
    for (auto &s : P.S) if (s.id == c.id && s.call_time >= 0 && s.wake_time < 0) pend++;
    c.pending_before = pend;
    if (c.with_code) c.result = P.sch.cancel(P.idp(c.id), vf::make_exc(c.with_code)); else c.result = P.sch.cancel(P.idp(c.id));
    c.done_at = vclock::now_ms;
}
inline cocls::async<void> v_main(vprog &P, int late_spawn_at) {
    std::vector<std::unique_ptr<cocls::future<void>>> futs;
    size_t n = P.S.size();
    size_t first = late_spawn_at >= 0 ? n / 2 : n;
    for (size_t i = 0; i < first; i++) futs.push_back(std::unique_ptr<cocls::future<void>>(new cocls::future<void>(v_sleeper(P, (int)i).start())));
    for (size_t i = 0; i < P.C.size(); i++) futs.push_back(std::unique_ptr<cocls::future<void>>(new cocls::future<void>(v_canceller(P, (int)i).start())));
    if (late_spawn_at >= 0) {
        {
            cocls::future<void> f = P.sch.sleep_until(vt(late_spawn_at), nullptr);
            co_await f;
        }
        for (size_t i = first; i < n; i++) futs.push_back(std::unique_ptr<cocls::future<void>>(new cocls::future<void>(v_sleeper(P, (int)i).start())));
    }
    for (size_t i = 0; i < futs.size(); i++) {
        cocls::future<void> &f = *futs[i];
        co_await f.has_value();
    }
}

inline void scheduler_virtual(const vf::opts &o, vf::report &R, uint64_t programs) {
    vf::rng master(vf::mix(o.seed, 0x212));
    cocls::verif::now_handler = &vclock::now;
    cocls::verif::wait_until_handler = &vclock::wait_until;
    for (uint64_t pn = 0; pn < programs && R.nviol() < 5; pn++) {
        vf::rng r(master.next());
        vf::set_crash_ctx(R.prop.c_str(), "scheduler_virtual", o.seed, pn);
        vclock::now_ms = 0; vclock::stuck = false; vclock::waits = 0;
        auto P = std::make_unique<vprog>();
        int n = 1 + (int)r.below(8);
        int nids = 1 + (int)r.below(3);
        std::string desc;
        for (int i = 0; i < n; i++) {
            vsleeper s;
            s.tp = (long)r.below(30);
            if (r.chance(1, 4) && i) s.tp = P->S[(size_t)r.below((uint32_t)i)].tp; // equal time points
            s.id = 10 == r.below(11) ? 0 : 1 + (int)r.below((uint32_t)nids);
            P->S.push_back(s);
            desc += "s(t" + std::to_string(s.tp) + ",i" + std::to_string(s.id) + ") ";
        }
        int nc = (int)r.below(4);
        for (int i = 0; i < nc; i++) {
            vcancel c{(long)r.below(30), 1 + (int)r.below((uint32_t)nids), r.chance(1, 2) ? 500 + i : 0};
            P->C.push_back(c);
            desc += "c(t" + std::to_string(c.at) + ",i" + std::to_string(c.id) + ") ";
        }
        int late = r.chance(1, 3) ? (int)r.below(25) : -1;
        if (late >= 0) desc += "late@" + std::to_string(late);
        bool threw = false;
        try {
            P->sch.start(v_main(*P, late));
        } catch (...) { threw = true; }
        R.cases++;
        std::string err;
        if (vclock::stuck) err = "scheduler went idle forever (waits for time_point::max) although awaited work was incomplete";
        if (threw && err.empty()) err = "start() threw";
        // oracles
        std::vector<const vsleeper *> order;
        for (auto &s : P->S) {
            if (!err.empty()) break;
            if (s.wake_time < 0 || s.outcome_state == PS_PENDING) { err = "a sleeper never completed"; break; }
            if (s.outcome_state == PS_VALUE) {
                long expect = std::max(s.tp, s.call_time);
                if (s.wake_time < s.tp) err = "sleeper t=" + std::to_string(s.tp) + " woke early at virtual time " + std::to_string(s.wake_time);
                else if (s.wake_time != expect) err = "sleeper t=" + std::to_string(s.tp) + " (called at " + std::to_string(s.call_time) + ") woke at " + std::to_string(s.wake_time) + " although the scheduler thread was idle (expected " + std::to_string(expect) + ")";
                order.push_back(&s);
            }
        }
        if (err.empty()) {
            std::sort(order.begin(), order.end(), [](const vsleeper *a, const vsleeper *b) { return a->wake_seq < b->wake_seq; });
            for (size_t i = 1; i < order.size(); i++)
                if (std::max(order[i - 1]->tp, order[i - 1]->call_time) > std::max(order[i]->tp, order[i]->call_time)) { err = "sleepers completed out of time-point order"; break; }
        }
        int cancelled = 0, cancel_true = 0;
        for (auto &s : P->S) if (s.outcome_state == PS_EXC || s.outcome_state == PS_CANCELED) cancelled++;
        for (auto &c : P->C) {
            if (c.result) cancel_true++;
            if (err.empty() && c.done_at >= 0 && c.result != (c.pending_before > 0))
                err = std::string("cancel(id=") + std::to_string(c.id) + ") at t=" + std::to_string(c.done_at) + " returned " + (c.result ? "true" : "false") + " with " + std::to_string(c.pending_before) + " pending sleeper(s) of that id";
        }
        if (err.empty() && cancelled != cancel_true) err = "sleepers that saw a cancellation (" + std::to_string(cancelled) + ") != cancels that reported true (" + std::to_string(cancel_true) + ")";
        auto witness = [&]() {
            std::vector<std::string> ss;
            for (auto &s : P->S) ss.push_back(vf::jobj().kv("tp", s.tp).kv("id", s.id).kv("called_at", s.call_time).kv("woke_at", s.wake_time).kv("outcome", ps_name(s.outcome_state)).kv("wake_seq", s.wake_seq).str());
            std::vector<std::string> cs;
            for (auto &c : P->C) cs.push_back(vf::jobj().kv("at", c.at).kv("id", c.id).kv("result", c.result).kv("pending_before", c.pending_before).str());
            return vf::jobj().kv("scenario", "scheduler_virtual").kv("seed", (unsigned long long)o.seed).kv("program", (unsigned long long)pn).kv("desc", desc)
                .raw("sleepers", vf::jarr(ss)).raw("cancels", vf::jarr(cs)).kv("virtual_waits", vclock::waits).str();
        };
        if (!err.empty()) {
            R.violation("monitor:virtual_time|scheduler_virtual", err, witness());
            if (vclock::stuck) { (void)P.release(); }
            continue;
        }
        if (n >= 2) { R.nontrivial_cases++; R.sig(desc); }
        R.cls("virtual_waits", (uint64_t)vclock::waits); R.cls("sleepers_cancelled", (uint64_t)cancelled);
        if (R.samples.size() < 3 && n > 3) R.sample(witness());
    }
    cocls::verif::now_handler = nullptr;
    cocls::verif::wait_until_handler = nullptr;
}

// ---------------------------------------------------------------------------------------------
// layer 3: real clock, scheduler running in its own thread / a given thread / a thread pool
inline cocls::async<void> rt_sleeper(cocls::scheduler &sch, sysclock::time_point tp, const void *id, std::atomic<int> &state, std::atomic<long> &early_us) {
    try {
        cocls::future<void> f = sch.sleep_until(tp, id);
        co_await f;
        auto now = sysclock::now();
        if (now < tp) early_us.store((long)std::chrono::duration_cast<std::chrono::microseconds>(tp - now).count() + 1, std::memory_order_relaxed);
        state.store(PS_VALUE, std::memory_order_release);
    } catch (const vf::test_exc &) { state.store(PS_EXC, std::memory_order_release); }
    catch (const cocls::await_canceled_exception &) { state.store(PS_CANCELED, std::memory_order_release); }
}

inline void scheduler_threads(const vf::opts &o, vf::report &R, vf::team &T, uint64_t rounds) {
    vf::rng master(vf::mix(o.seed, 0x312));
    static const int sites[] = {sch_worker_pre_wait, sch_worker_loop, sch_stop_cb, sch_dtor_stop, sch_schedule_entry, sch_cancel_removed,
                                tp_worker_dequeued, tp_enqueue_entry, prom_claim_pre, aw_chain_pre, coaw_suspend, aw_subchk_post, sync_pre_wait};
    T.set_aux_targets(true);
    static char tags[4];
    long max_late_us = 0;
    for (uint64_t rn = 0; rn < rounds && R.nviol() < 5; rn++) {
        vf::rng r(master.next());
        int mode = (int)r.below(3); // 0 start_thread, 1 std::thread&, 2 thread pool
        int npend = (int)r.below(4);
        int nshort = (int)r.below(3);
        bool do_cancel = r.chance(1, 2);
        std::string plan = T.plan(r, sites, (int)(sizeof sites / sizeof sites[0]));
        std::string desc = "mode" + std::to_string(mode) + " pending_at_destroy=" + std::to_string(npend) + " short=" + std::to_string(nshort) + (do_cancel ? " cancel" : "");
        vf::set_crash_ctx(R.prop.c_str(), "scheduler_threads", o.seed, rn, (desc + " ; " + plan).c_str());
        std::atomic<int> st[3]; std::atomic<long> early[3];
        for (int i = 0; i < 3; i++) { st[i] = PS_PENDING; early[i] = 0; }
        std::vector<std::unique_ptr<cocls::future<void>>> pend;
        bool cancel_res = false; int cancel_target_state = -1;
        std::string err;
        T.round([&](int tid) {
            if (tid != 0) return;
            std::unique_ptr<cocls::thread_pool> pool;
            std::thread thr;
            {
                std::unique_ptr<cocls::scheduler> sch;
                if (mode == 2) { pool = std::make_unique<cocls::thread_pool>(1 + r.below(2)); sch = std::make_unique<cocls::scheduler>(*pool); }
                else if (mode == 1) sch = std::make_unique<cocls::scheduler>(thr);
                else { sch = std::make_unique<cocls::scheduler>(); sch->start_thread(); }
                auto t0 = sysclock::now();
                std::vector<std::unique_ptr<cocls::future<void>>> shortf;
                // far sleeps first in half of the rounds, and give the worker time to go to sleep on them: the short sleeps scheduled
                // afterwards must then WAKE the worker (a missing notification leaves them waiting for an hour -> quiescence watchdog)
                bool far_first = r.chance(1, 2);
                auto add_far = [&] { for (int i = 0; i < npend; i++) pend.push_back(std::unique_ptr<cocls::future<void>>(new cocls::future<void>(sch->sleep_until(t0 + std::chrono::seconds(3600 + 60 * i), nullptr)))); };
                if (far_first) { add_far(); if (npend && r.chance(2, 3)) std::this_thread::sleep_for(std::chrono::microseconds(200 + 200 * r.below(4))); }
                // short sleeps in descending deadline order in some rounds: each one is earlier than the current head of the heap
                bool descending = r.chance(1, 2);
                for (int i = 0; i < nshort; i++) {
                    int slot = descending ? (nshort - 1 - i) : (int)r.below(5);
                    shortf.push_back(std::unique_ptr<cocls::future<void>>(new cocls::future<void>(
                        rt_sleeper(*sch, t0 + std::chrono::microseconds(300 + 500 * slot), &tags[i], st[i], early[i]).start())));
                    if (descending && r.chance(1, 2)) std::this_thread::sleep_for(std::chrono::microseconds(50));
                }
                if (!far_first) add_far();
                if (do_cancel && nshort) {
                    int k = (int)r.below((uint32_t)nshort);
                    if (r.chance(1, 2)) std::this_thread::sleep_for(std::chrono::microseconds(100 + 300 * r.below(5)));
                    cancel_res = sch->cancel(&tags[k], vf::make_exc(5));
                    cancel_target_state = k;
                }
                // wait (bounded by the watchdog) until the short sleepers completed
                for (auto &f : shortf) f->sync(); // a lost wake-up blocks here: reported by the quiescence watchdog
                sch.reset(); // destruction with npend sleeps still pending
            }
            if (thr.joinable()) thr.join();
            pool.reset();
        });
        R.cases++;
        for (int i = 0; i < nshort && err.empty(); i++) {
            if (early[i].load()) err = "sleeper resumed " + std::to_string(early[i].load()) + "us before its time point";
        }
        if (err.empty() && cancel_target_state >= 0) {
            int s = st[cancel_target_state].load();
            if (cancel_res != (s == PS_EXC)) err = std::string("cancel returned ") + (cancel_res ? "true" : "false") + " but the sleeper observed " + ps_name(s);
        }
        for (auto &f : pend) {
            if (!err.empty()) break;
            outcome oc = observe_future(*f);
            if (oc.state != PS_CANCELED) err = "sleep pending at scheduler destruction observed " + oc.str() + " instead of cancelled";
        }
        auto witness = [&]() { return vf::jobj().kv("scenario", "scheduler_threads").kv("seed", (unsigned long long)o.seed).kv("round", (unsigned long long)rn).kv("desc", desc).kv("stall_plan", plan).str(); };
        if (!err.empty()) { R.violation("monitor:realtime|scheduler_threads", err, witness()); for (auto &f : pend) (void)f.release(); continue; }
        R.nontrivial_cases++;
        R.sig(desc + (cancel_target_state >= 0 ? (cancel_res ? " hit" : " miss") : ""));
        if (cancel_target_state >= 0) R.cls(cancel_res ? "cancel_won_race" : "expiry_won_race");
        if (T.stalls_fired_last_round()) R.cls("rounds_with_stall_fired");
        if (R.samples.size() < 2) R.sample(witness());
    }
    (void)max_late_us;
    T.set_aux_targets(false);
}

// start/destroy cycles with nothing scheduled and a stall right before the worker's wait (lost stop notification)
inline void scheduler_stop_race(const vf::opts &o, vf::report &R, vf::team &T, uint64_t rounds) {
    vf::rng master(vf::mix(o.seed, 0x412));
    for (uint64_t rn = 0; rn < rounds && R.nviol() < 5; rn++) {
        vf::rng r(master.next());
        int mode = (int)r.below(3);
        // explicit plan: the first auxiliary thread (scheduler worker) stalls before its n-th wait until the others made k hook calls
        std::string plan = T.plan(r, nullptr, 0);
        vf::g_team.aux_nplan[0] = 1;
        vf::g_team.aux_plan[0][0] = vf::stall_entry(sch_worker_pre_wait, 1 + (int)r.below(2), 0, 1 + (int)r.below(3), 0);
        if (mode == 2) { vf::g_team.aux_nplan[1] = 1; vf::g_team.aux_plan[1][0] = vf::g_team.aux_plan[0][0]; }
        std::string desc = "mode" + std::to_string(mode) + " stall a0@sch_worker_pre_wait#" + std::to_string((int)vf::g_team.aux_plan[0][0].nth) + "+" + std::to_string((int)vf::g_team.aux_plan[0][0].ticks);
        vf::set_crash_ctx(R.prop.c_str(), "scheduler_stop_race", o.seed, rn, desc.c_str());
        int delay = (int)r.below(60);
        bool wait_worker = r.chance(4, 5);
        T.round([&](int tid) {
            if (tid != 0) return;
            std::unique_ptr<cocls::thread_pool> pool;
            std::thread thr;
            {
                uint64_t base_ticks = vf::others_ticks(vf::tl_slot);
                std::unique_ptr<cocls::scheduler> sch;
                if (mode == 2) { pool = std::make_unique<cocls::thread_pool>(1); sch = std::make_unique<cocls::scheduler>(*pool); }
                else if (mode == 1) sch = std::make_unique<cocls::scheduler>(thr);
                else { sch = std::make_unique<cocls::scheduler>(); sch->start_thread(); }
                if (wait_worker) { // let the worker reach its loop first (relaxed read of the hook tick counters, no synchronisation)
                    uint64_t t0 = vf::rdtsc();
                    while (vf::others_ticks(vf::tl_slot) == base_ticks && vf::rdtsc() - t0 < 30000000ull) vf::cpu_relax();
                }
                for (int i = 0; i < delay * 5; i++) vf::cpu_relax();
                sch.reset(); // must return: a lost stop notification blocks here forever -> quiescence watchdog
            }
            if (thr.joinable()) thr.join();
            pool.reset();
        });
        R.cases++; R.nontrivial_cases++;
        R.sig("m" + std::to_string(mode) + "d" + std::to_string(delay / 10) + (T.stalls_fired_last_round() ? "S" : "-"));
        if (T.stalls_fired_last_round()) R.cls("rounds_with_stall_fired");
        if (R.samples.size() < 2) R.sample(vf::jobj().kv("cycle", desc).kv("result", "~scheduler returned").str());
    }
}

// interval() generator cancelled through its stop token
inline void scheduler_interval_stop(const vf::opts &o, vf::report &R, vf::team &T, uint64_t rounds) {
    vf::rng master(vf::mix(o.seed, 0x512));
    for (uint64_t rn = 0; rn < rounds && R.nviol() < 5; rn++) {
        vf::rng r(master.next());
        int ticks_before = (int)r.below(3);
        int stop_point = (int)r.below(3); // 0: while a tick is pending (sleep registered), 1: between two ticks (generator parked at its yield, nothing pending), 2: token already stopped before the first tick
        std::string desc = "ticks_before_stop=" + std::to_string(ticks_before) + (stop_point == 0 ? " stop during a pending tick" : stop_point == 1 ? " stop between two ticks" : " token stopped before the first tick");
        vf::set_crash_ctx(R.prop.c_str(), "scheduler_interval_stop", o.seed, rn, desc.c_str());
        std::string err;
        T.round([&](int tid) {
            if (tid != 0) return;
            cocls::scheduler sch;
            sch.start_thread();
            std::stop_source src;
            {
                if (stop_point == 2) src.request_stop();
                auto gen = sch.interval(std::chrono::microseconds(300), src.get_token());
                if (stop_point == 2) { cocls::future<std::size_t> f = gen(); if (f.has_value()) err = "interval generator produced a tick although its stop token was already stopped"; return; }
                for (int i = 0; i < ticks_before + (stop_point == 1 ? 1 : 0); i++) {
                    cocls::future<std::size_t> f = gen();
                    if (!f.has_value()) { err = "interval generator ended before it was stopped"; return; }
                }
                if (stop_point == 1) { // nothing is pending now: the stop request finds no sleep to cancel; the next call must report the end
                    src.request_stop();
                    cocls::future<std::size_t> f1 = gen();
                    if (f1.has_value()) { cocls::future<std::size_t> f2 = gen(); if (f2.has_value()) err = "interval generator kept producing after stop was requested between two ticks"; }
                    return;
                }
                cocls::future<std::size_t> f = gen();      // pending tick (sleep registered in the scheduler)
                src.request_stop();                         // cancels the pending sleep through the stop token
                bool hv = f.has_value();                    // must complete (blocking wait; watchdog reports a deadlock)
                if (hv) { /* the tick may legitimately win the race against the stop request */
                    cocls::future<std::size_t> f2 = gen();
                    if (f2.has_value()) err = "interval generator kept producing after stop was requested";
                }
            }
        });
        R.cases++;
        if (!err.empty()) { R.violation("monitor:interval_stop|scheduler_interval_stop", err, vf::jobj().kv("desc", desc).kv("round", (unsigned long long)rn).str()); continue; }
        R.nontrivial_cases++;
        R.sig(desc);
        if (R.samples.size() < 1) R.sample(vf::jobj().kv("case", desc).kv("result", "pending tick completed as end-of-sequence after request_stop").str());
    }
}

// ---------------------------------------------------------------------------------------------
// Pool mode under re-arming: sleepers that are resumed on the pool immediately arm the (then often EMPTY) scheduler again with a very
// short sleep, from several pool threads at once, hundreds of times. Every newly armed earliest entry must reach the scheduling
// worker - a schedule() that notifies nobody leaves its sleeper waiting for ever although the scheduler is idle (hang verdict).
inline cocls::async<void> spr_sleeper(cocls::scheduler &sch, int n, unsigned us, std::atomic<long> &ticks, std::atomic<int> &early) {
    for (int i = 0; i < n; i++) {
        auto t0 = std::chrono::system_clock::now();
        auto d = std::chrono::microseconds(us + (unsigned)(i % 3) * 7);
        co_await sch.sleep_for(d);
        if (std::chrono::system_clock::now() < t0 + d) early.fetch_add(1, std::memory_order_relaxed);
        ticks.fetch_add(1, std::memory_order_relaxed);
    }
}
inline void scheduler_pool_rearm(const vf::opts &o, vf::report &R, uint64_t cases) {
    vf::rng master(vf::mix(o.seed, 0x512));
    for (uint64_t cn = 0; cn < cases && R.nviol() < 5; cn++) {
        vf::rng r(master.next());
        int nthreads = 2 + (int)r.below(4), nsleepers = 1 + (int)r.below(3), n = 100 + (int)r.below(300);
        unsigned us = (unsigned)r.below(60);
        std::string desc = "pool threads=" + std::to_string(nthreads) + " sleepers=" + std::to_string(nsleepers) + " re-arms=" + std::to_string(n) + " sleep=" + std::to_string(us) + "us";
        vf::set_crash_ctx(R.prop.c_str(), "scheduler_pool_rearm", o.seed, cn, desc.c_str());
        std::atomic<long> ticks{0}; std::atomic<int> early{0};
        {
            cocls::thread_pool pool((unsigned)nthreads);
            {
                cocls::scheduler sch(pool);
                std::vector<std::unique_ptr<cocls::future<void>>> fs;
                for (int i = 0; i < nsleepers; i++) fs.push_back(std::unique_ptr<cocls::future<void>>(new cocls::future<void>(spr_sleeper(sch, n, us, ticks, early).start())));
                for (auto &f : fs) f->sync(); // blocks for ever when a sleeper is stranded (watchdog: nobody runs, nothing finishes)
            }
        }
        R.cases++;
        std::string err;
        if (ticks.load() != (long)nsleepers * n) err = "sleepers completed " + std::to_string(ticks.load()) + " sleeps, expected " + std::to_string((long)nsleepers * n);
        else if (early.load()) err = std::to_string(early.load()) + " sleeps completed before their time point";
        if (!err.empty()) { R.violation("monitor:realtime|scheduler_pool_rearm", err, vf::jobj().kv("case", (unsigned long long)cn).kv("desc", desc).str()); continue; }
        R.nontrivial_cases++;
        R.sig(desc);
        R.cls("sleeps_rearmed_from_pool_threads", (uint64_t)ticks.load());
        if (R.samples.size() < 2) R.sample(vf::jobj().kv("case", desc).kv("result", "every re-armed sleep completed, none early").str());
    }
}

} // namespace scn
