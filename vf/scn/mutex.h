// scenarios for the coroutine mutex (C07, C08; also part of the C03 TSan workload)
#pragma once
#include <optional>
#include <deque>
#include <array>
#include <vf/team.h>
#include <cocls/mutex.h>
#include <cocls/async.h>
#include <cocls/future.h>
#include <cocls/thread_pool.h>
#include <cocls/resume.h>
#include <thread>
#include <memory>

namespace scn {
using namespace cocls::verif;

enum { MK_CORO = 0, MK_BLOCK = 1, MK_TRY = 2 };
enum { MR_DISCARD = 0, MR_AWAIT = 1, MR_DTOR = 2, MR_THREAD = 3 };
inline const char *mk_name(int k) { static const char *n[] = {"coro", "block", "try"}; return n[k]; }
inline const char *mr_name(int k) { static const char *n[] = {"discard", "await", "dtor", "thread"}; return n[k]; }

enum : unsigned {
    MV_OVERLAP = 1, MV_DOUBLE_GRANT = 2, MV_REENTER = 4, MV_TRY_ON_HELD = 8, MV_BODY_TWICE = 16
};

struct mx_req {
    int kind = 0, rel = 0;
    int me = 0;
    std::atomic<int> granted{0};
    std::atomic<int> entered{0};  // coroutine body entries after the lock (once-flag)
    std::atomic<int> active{0};   // coroutine currently running
    std::atomic<int> finished{0};
    int grant_seq = -1;           // written inside the critical section (protected by the mutex under test)
    uint64_t t_issue = 0, t_arrived = 0;
    bool waited_at_arrival = false;
    bool try_ok = false;
    int path = -1;                // 0 fast, 1 subscribe-found-free, 2 waited (from the hook log)
};

struct mx_round {
    std::unique_ptr<cocls::mutex> mx;
    std::atomic<int> holder{0};
    long plain = 0;       // deliberately non-atomic: protected only by the mutex under test
    int grant_order = 0;  // ditto
    std::atomic<unsigned> viol{0};
    mx_req reqs[vf::MAX_TEAM][3];
    int nreq[vf::MAX_TEAM] = {};
    int work = 0;
    void flag(unsigned v) { viol.fetch_or(v, std::memory_order_relaxed); }
};

inline void mx_critical(mx_round &R, mx_req &q) {
    int prev = R.holder.exchange(q.me, std::memory_order_relaxed);
    if (prev != 0) R.flag(MV_OVERLAP);
    if (q.granted.fetch_add(1, std::memory_order_relaxed) != 0) R.flag(MV_DOUBLE_GRANT);
    q.grant_seq = R.grant_order++;
    R.plain++;
    for (int i = 0; i < R.work; i++) vf::cpu_relax();
    prev = R.holder.exchange(0, std::memory_order_relaxed);
    if (prev != q.me) R.flag(MV_OVERLAP);
}

inline void mx_release_in_thread(cocls::mutex::ownership own) {
    std::thread t([o = std::move(own)]() mutable { o.release(); });
    t.join();
}

inline cocls::async<void> mx_locker(mx_round &R, mx_req &q) {
    if (q.active.exchange(1, std::memory_order_relaxed)) R.flag(MV_REENTER);
    q.active.store(0, std::memory_order_relaxed);
    cocls::mutex::ownership own = co_await R.mx->lock();
    if (q.active.exchange(1, std::memory_order_relaxed)) R.flag(MV_REENTER);
    if (q.entered.fetch_add(1, std::memory_order_relaxed) != 0) R.flag(MV_BODY_TWICE);
    mx_critical(R, q);
    switch (q.rel) {
    case MR_DISCARD: own.release(); break;
    case MR_AWAIT:
        q.active.store(0, std::memory_order_relaxed);
        co_await own.release();
        if (q.active.exchange(1, std::memory_order_relaxed)) R.flag(MV_REENTER);
        break;
    case MR_THREAD: mx_release_in_thread(std::move(own)); break;
    default: break; // MR_DTOR: ownership destroyed with the frame
    }
    q.active.store(0, std::memory_order_relaxed);
    q.finished.store(1, std::memory_order_relaxed);
}

inline void mx_role(mx_round &R, int tid, uint64_t rseed) {
    vf::start_offset(rseed, tid);
    for (int i = 0; i < R.nreq[tid]; i++) {
        mx_req &q = R.reqs[tid][i];
        q.t_issue = vf::rdtsc();
        switch (q.kind) {
        case MK_CORO: {
            mx_locker(R, q).detach(); // discarded suspend point: starts the coroutine right here
            q.waited_at_arrival = q.granted.load(std::memory_order_relaxed) == 0;
            q.t_arrived = vf::rdtsc();
            break;
        }
        case MK_BLOCK: {
            // two blocking forms: construction of the ownership from the request (wait()), and force_wait() - the form that is also allowed
            // inside coroutines and has its own implementation
            cocls::mutex::ownership own = (((uintptr_t)&q >> 7) & 1) ? cocls::mutex::ownership(R.mx->lock()) : cocls::mutex::ownership(R.mx->lock().force_wait());
            mx_critical(R, q);
            if (q.rel == MR_DISCARD || q.rel == MR_AWAIT) own.release();
            else if (q.rel == MR_THREAD) mx_release_in_thread(std::move(own));
            q.finished.store(1, std::memory_order_relaxed);
            break;
        }
        case MK_TRY: {
            cocls::mutex::ownership own = R.mx->try_lock();
            if (own) {
                q.try_ok = true;
                if (R.holder.load(std::memory_order_relaxed) != 0) R.flag(MV_TRY_ON_HELD);
                mx_critical(R, q);
                if (q.rel == MR_DISCARD || q.rel == MR_AWAIT) own.release();
            }
            q.finished.store(1, std::memory_order_relaxed);
            break;
        }
        }
    }
}

// which oracle groups to report: C07 = exclusion / exactly-once, C08 = FIFO / no lost request / try_lock
enum { MX_C07 = 1, MX_C08 = 2, MX_ALL = 3 };

inline void mutex_mt(const vf::opts &o, vf::report &R, vf::team &T, uint64_t rounds, int groups) {
    static const int sites[] = {aw_sub_pre, aw_sub_post, mx_sub_post, mx_unlock_pre, mx_unlock_slow, mx_build_pre,
                                mx_build_post, mx_build_node, mx_unlock_grant, mx_ready_pre, coaw_suspend, aw_chain_node};
    vf::rng master(vf::mix(o.seed, 0x07));
    const uint64_t fifo_margin = 3000; // cycles; covers TSC skew between cores
    for (uint64_t rn = 0; rn < rounds && R.nviol() < 5; rn++) {
        uint64_t rseed = master.next();
        vf::rng r(rseed);
        mx_round X;
        X.mx = std::make_unique<cocls::mutex>();
        X.work = r.chance(1, 3) ? (int)r.below(40) : 0;
        int nthr = 2 + (int)r.below((uint32_t)(T.n - 1));
        if (nthr > T.n) nthr = T.n;
        std::string desc;
        for (int t = 0; t < nthr; t++) {
            X.nreq[t] = 1 + (int)r.below(3);
            for (int i = 0; i < X.nreq[t]; i++) {
                mx_req &q = X.reqs[t][i];
                uint32_t k = r.below(10);
                q.kind = k < 6 ? MK_CORO : (k < 8 ? MK_BLOCK : MK_TRY);
                uint32_t rl = r.below(40);
                q.rel = rl < 13 ? MR_DISCARD : (rl < 26 ? MR_AWAIT : (rl < 39 ? MR_DTOR : MR_THREAD));
                q.me = t * 4 + i + 1;
                desc += std::string(i ? "," : (t ? " | " : "")) + mk_name(q.kind) + "/" + mr_name(q.rel);
            }
        }
        std::string plan = T.plan(r, sites, (int)(sizeof sites / sizeof sites[0]));
        vf::set_crash_ctx(R.prop.c_str(), "mutex_mt", o.seed, rn, (desc + " ; " + plan).c_str());
        T.round([&](int tid) { if (tid < nthr) mx_role(X, tid, rseed); });
        R.cases++;

        // ---------------- oracles (after the closing barrier)
        unsigned v = X.viol.load();
        int total_grants = 0;
        bool lost = false, bad_try = false;
        std::vector<mx_req *> all;
        for (int t = 0; t < nthr; t++) for (int i = 0; i < X.nreq[t]; i++) {
            mx_req &q = X.reqs[t][i];
            all.push_back(&q);
            int g = q.granted.load();
            total_grants += g;
            if (q.kind == MK_TRY) { if (g != (q.try_ok ? 1 : 0)) bad_try = true; }
            else if (g == 0 || !q.finished.load()) lost = true;
            else if (g > 1) v |= MV_DOUBLE_GRANT;
        }
        auto witness = [&]() {
            std::vector<std::string> rq;
            for (auto *q : all) rq.push_back(vf::jobj().kv("id", q->me).kv("kind", mk_name(q->kind)).kv("rel", mr_name(q->rel))
                .kv("granted", q->granted.load()).kv("grant_seq", q->grant_seq).kv("finished", q->finished.load())
                .kv("t_issue", (unsigned long long)q->t_issue).kv("t_arrived", (unsigned long long)q->t_arrived).str());
            return vf::jobj().kv("scenario", "mutex_mt").kv("seed", (unsigned long long)o.seed).kv("round", (unsigned long long)rn)
                .kv("threads", nthr).kv("roles", desc).kv("stall_plan", plan).raw("requests", vf::jarr(rq))
                .kv("plain_counter", X.plain).kv("viol_bits", v).str();
        };
        bool corrupt = false;
        if (groups & MX_C07) {
            if (v & MV_OVERLAP) { R.violation("monitor:overlap|critical_section", "two parties inside the critical section at once", witness()); corrupt = true; }
            if (v & MV_DOUBLE_GRANT) { R.violation("monitor:double_grant|lock", "a lock request was granted more than once", witness()); corrupt = true; }
            if (v & MV_BODY_TWICE) { R.violation("monitor:body_twice|lock", "a coroutine's post-lock section was entered twice", witness()); corrupt = true; }
            if (v & MV_REENTER) { R.violation("monitor:reentered|coroutine", "a coroutine was resumed while it was running or still suspending", witness()); corrupt = true; }
            if (v & MV_TRY_ON_HELD) { R.violation("monitor:try_lock_on_held|try_lock", "try_lock succeeded while the mutex was held", witness()); corrupt = true; }
            if (!lost && !corrupt && X.plain != total_grants) { R.violation("monitor:lost_update|critical_section", "plain counter protected by the mutex lost an update", witness()); corrupt = true; }
            if (lost) { R.violation("monitor:never_granted|lock", "a lock request was never granted although all owners released", witness()); corrupt = true; }
        }
        if (groups & MX_C08) {
            if (lost) { R.violation("monitor:lost_request|lock", "a lock request was lost (never granted after all owners released)", witness()); corrupt = true; }
            if (bad_try) { R.violation("monitor:try_lock_inconsistent|try_lock", "try_lock result and grant count disagree", witness()); corrupt = true; }
            if (!lost && !(v & (MV_OVERLAP | MV_DOUBLE_GRANT))) {
                // FIFO: A arrived (its suspension returned to the starter) before B was issued => A granted before B
                for (auto *a : all) {
                    if (a->kind != MK_CORO || a->granted.load() != 1) continue;
                    for (auto *b : all) {
                        if (a == b || b->granted.load() != 1) continue;
                        if (a->t_arrived + fifo_margin < b->t_issue && a->grant_seq > b->grant_seq) {
                            R.violation("monitor:fifo|handoff", "a later request was granted before an earlier, already waiting one", witness());
                            corrupt = true;
                        }
                    }
                }
            }
        }
        if ((v != 0 || lost) && !corrupt) corrupt = true; // other group's business, but the state is not reusable
        if (corrupt) { (void)X.mx.release(); /* leak: state is unusable */ continue; }
        // the mutex must be free now and lockable again
        {
            cocls::mutex::ownership own = X.mx->try_lock();
            if (!own) {
                if (groups & MX_C08) R.violation("monitor:stuck_locked|try_lock", "mutex is still locked although every ownership has been released", witness());
                (void)X.mx.release();
                continue;
            }
            own.release();
        }
        // ---------------- classification from the hook log
        int nwait = 0, nsubfree = 0, nfast = 0;
        std::string sig;
        for (int t = 0; t < nthr; t++) {
            std::vector<int> ev = T.events(t);
            size_t ei = 0;
            std::string ts;
            // lock-path events of this thread's own requests appear in request order; grants of foreign coroutines
            // resumed on this thread do not log lock events (they are past the lock)
            for (int i = 0; i < X.nreq[t]; i++) {
                mx_req &q = X.reqs[t][i];
                if (q.kind == MK_TRY && !q.try_ok) { q.path = -1; }
                else {
                    while (ei < ev.size() && ev[ei] != ev_mx_lock_fast && ev[ei] != ev_mx_lock_sub_free && ev[ei] != ev_mx_lock_wait) ei++;
                    if (ei < ev.size()) { q.path = ev[ei] == ev_mx_lock_fast ? 0 : (ev[ei] == ev_mx_lock_sub_free ? 1 : 2); ei++; }
                }
                if (q.path == 2) nwait++; else if (q.path == 1) nsubfree++; else if (q.path == 0) nfast++;
                ts += std::string(mk_name(q.kind)).substr(0, 1) + std::string(mr_name(q.rel)).substr(0, 2) + std::to_string(q.path) + ",";
            }
            sig += ts + "|";
        }
        int handover = T.count_event(ev_mx_unlock_handover), rebuilt = T.count_event(ev_mx_rebuild_node), ufast = T.count_event(ev_mx_unlock_fast);
        sig += "h" + std::to_string(handover) + "r" + std::to_string(rebuilt);
        bool nontrivial = nwait > 0;
        if (nontrivial) R.nontrivial_cases++;
        R.sig(sig, nontrivial);
        R.cls(nwait ? "round_with_waiting_request" : "round_uncontended");
        R.cls("lock_path_fast", nfast); R.cls("lock_path_found_free_after_push", nsubfree); R.cls("lock_path_waited", nwait);
        R.cls("unlock_fast", ufast); R.cls("unlock_handover", handover); R.cls("queue_nodes_rebuilt", rebuilt);
        if (T.stalls_fired_last_round()) R.cls("rounds_with_stall_fired");
        if (nontrivial && R.samples.size() < 4) R.sample(witness());
    }
}

// ---------------------------------------------------------------------------------------------
// Single threaded histories: strict FIFO (grant order == arrival order), every request granted once

struct mxh_state {
    cocls::mutex mx;
    std::vector<int> arrivals, grants;
    int next_id = 0;
    int inside = 0;
    unsigned viol = 0;
    int live = 0; // coroutines started and not finished
};

struct mxh_plan { // behaviour of coroutine #id
    int rel;      // release style
    int spawn;    // number of new requesters spawned while holding the lock
    int pause_in; // co_await pause() while holding the lock
};

inline cocls::async<void> mxh_coro(mxh_state &S, const std::vector<mxh_plan> &plans, int depth) {
    int id = S.next_id++;
    S.live++;
    const mxh_plan pl = plans[(size_t)id % plans.size()];
    S.arrivals.push_back(id);
    cocls::mutex::ownership own = co_await S.mx.lock();
    if (S.inside++) S.viol |= MV_OVERLAP;
    S.grants.push_back(id);
    if (depth < 3) {
        for (int i = 0; i < pl.spawn && S.next_id < 40; i++) mxh_coro(S, plans, depth + 1).detach();
    }
    if (pl.pause_in) { co_await cocls::pause(); }
    S.inside--;
    switch (pl.rel) {
    case MR_DISCARD: own.release(); break;
    case MR_AWAIT: co_await own.release(); break;
    default: break;
    }
    S.live--;
}

inline void mutex_fifo_history(const vf::opts &o, vf::report &R, uint64_t histories) {
    vf::rng master(vf::mix(o.seed, 0x08));
    for (uint64_t hn = 0; hn < histories && R.nviol() < 5; hn++) {
        uint64_t hseed = master.next();
        vf::rng r(hseed);
        vf::set_crash_ctx(R.prop.c_str(), "mutex_fifo_history", o.seed, hn);
        auto S = std::make_unique<mxh_state>();
        std::vector<mxh_plan> plans;
        int np = 2 + (int)r.below(8);
        for (int i = 0; i < np; i++) plans.push_back({(int)r.below(3), r.chance(1, 3) ? (int)r.below(3) : 0, (int)r.chance(1, 3)});
        int initial = 1 + (int)r.below(7);
        bool from_coroutine = r.chance(1, 2);
        // an outer blocking owner makes all initial requesters wait, like a user thread holding the lock
        bool outer_owner = r.chance(2, 3);
        std::string desc = "init=" + std::to_string(initial) + " outer=" + std::to_string(outer_owner) + " plans=";
        for (auto &p : plans) desc += std::to_string(p.rel) + std::to_string(p.spawn) + std::to_string(p.pause_in) + " ";
        {
            cocls::mutex::ownership outer;
            if (outer_owner) outer = S->mx.try_lock();
            auto starter = [&]() { for (int i = 0; i < initial; i++) mxh_coro(*S, plans, 0).detach(); };
            if (from_coroutine) cocls::coro_queue::install_queue_and_call(starter); else starter();
            if (outer_owner) {
                int rel = (int)r.below(2);
                if (rel == 0) outer.release(); // discarded in normal mode: everything runs nested right here
                else { cocls::mutex::ownership tmp = std::move(outer); }
            }
        }
        R.cases++;
        bool bad = false;
        auto witness = [&]() {
            return vf::jobj().kv("scenario", "mutex_fifo_history").kv("seed", (unsigned long long)o.seed).kv("history", (unsigned long long)hn)
                .kv("desc", desc).raw("arrival_order", vf::jnums(S->arrivals)).raw("grant_order", vf::jnums(S->grants)).str();
        };
        if (S->viol & MV_OVERLAP) { R.violation("monitor:overlap|history", "two coroutines inside the critical section (single thread history)", witness()); bad = true; }
        if (S->grants.size() != S->arrivals.size() || S->live != 0) { R.violation("monitor:lost_request|history", "not every request was granted after all owners released", witness()); bad = true; }
        else if (S->grants != S->arrivals) { R.violation("monitor:fifo|history", "grant order differs from arrival order", witness()); bad = true; }
        if (!bad) {
            auto own = S->mx.try_lock();
            if (!own) { R.violation("monitor:stuck_locked|history", "mutex not lockable after all ownerships released", witness()); bad = true; }
        }
        if (bad) { (void)S.release(); continue; }
        bool nontrivial = S->arrivals.size() >= 2;
        if (nontrivial) R.nontrivial_cases++;
        R.sig(desc + "n=" + std::to_string(S->arrivals.size()), nontrivial);
        R.cls("history_requests", S->arrivals.size());
        if (R.samples.size() < 3 && S->arrivals.size() > 3) R.sample(witness());
    }
}

// Arrival order fixed from one thread, releases performed through a thread pool / helper threads:
// grant order must be exactly the arrival order, and everything completes (futures are waited for).
struct mxp_state {
    cocls::mutex mx;
    std::vector<int> grants; // protected by mx
    std::atomic<int> inside{0};
    std::atomic<unsigned> viol{0};
};
inline cocls::async<void> mxp_coro(mxp_state &S, cocls::thread_pool &pool, int id, int rel) {
    cocls::mutex::ownership own = co_await S.mx.lock();
    if (S.inside.fetch_add(1, std::memory_order_relaxed)) S.viol.fetch_or(MV_OVERLAP);
    S.grants.push_back(id);
    S.inside.fetch_sub(1, std::memory_order_relaxed);
    switch (rel) {
    case 0: pool.resume(own.release()); break;
    case 1: cocls::parallel_resume(own.release()); break;
    case 2: own.release(); break;
    default: co_await own.release(); break;
    }
}
inline void mutex_pool_handoff(const vf::opts &o, vf::report &R, uint64_t rounds) {
    vf::rng master(vf::mix(o.seed, 0x88));
    cocls::thread_pool pool(2);
    for (uint64_t rn = 0; rn < rounds && R.nviol() < 5; rn++) {
        vf::rng r(master.next());
        vf::set_crash_ctx(R.prop.c_str(), "mutex_pool_handoff", o.seed, rn);
        auto S = std::make_unique<mxp_state>();
        int n = 2 + (int)r.below(6);
        std::vector<int> rels;
        std::vector<std::unique_ptr<cocls::future<void>>> futs;
        {
            cocls::mutex::ownership outer = S->mx.try_lock();
            for (int i = 0; i < n; i++) {
                rels.push_back((int)r.below(4));
                futs.push_back(std::make_unique<cocls::future<void>>());
                mxp_coro(*S, pool, i, rels.back()).start(futs.back()->get_promise());
            }
            if (r.chance(1, 2)) pool.resume(outer.release()); else outer.release();
        }
        for (auto &f : futs) f->sync(); // a lost request blocks here: the watchdog reports it
        R.cases++;
        std::vector<int> expect;
        for (int i = 0; i < n; i++) expect.push_back(i);
        auto witness = [&]() {
            return vf::jobj().kv("scenario", "mutex_pool_handoff").kv("seed", (unsigned long long)o.seed).kv("round", (unsigned long long)rn)
                .raw("release_styles", vf::jnums(rels)).raw("grant_order", vf::jnums(S->grants)).str();
        };
        if (S->viol.load()) R.violation("monitor:overlap|pool_handoff", "overlap in critical section while handing over through pool/threads", witness());
        else if (S->grants != expect) R.violation("monitor:fifo|pool_handoff", "grant order differs from arrival order when releasing through pool/threads", witness());
        else {
            R.nontrivial_cases++;
            std::string sg = "pool:";
            for (int x : rels) sg += std::to_string(x);
            R.sig(sg);
            if (rn < 2) R.sample(witness());
        }
    }
}

// ---------------------------------------------------------------------------------------------
// The ownership OBJECT (move-only handle): random single-thread histories of try_lock into a slot, move construction, move
// assignment (over empty and over HELD ownerships), release() (also twice), destruction - on two mutexes. After every step each
// mutex must be locked iff the model says that some slot owns it: a probe try_lock succeeds exactly on the free ones (never blocks),
// and one coroutine parked on each mutex is granted exactly when its mutex becomes free.
struct own_waiter { int granted = 0; cocls::mutex::ownership held; };
inline cocls::async<void> own_wait_coro(cocls::mutex &m, own_waiter &w) { w.held = co_await m.lock(); w.granted++; }
inline void ownership_object_history(const vf::opts &o, vf::report &R, uint64_t histories) {
    vf::rng master(vf::mix(o.seed, 0x707));
    for (uint64_t hn = 0; hn < histories && R.nviol() < 5; hn++) {
        vf::rng r(master.next());
        vf::set_crash_ctx(R.prop.c_str(), "ownership_object_history", o.seed, hn);
        auto mxs = std::make_unique<std::array<cocls::mutex, 2>>();
        constexpr int NS = 4;
        std::optional<cocls::mutex::ownership> slot[NS];
        int owns[NS]; for (auto &x : owns) x = -1;   // model: which mutex the slot's ownership holds (-1 none / empty object)
        std::string trace, err;
        int len = 3 + (int)r.below(20);
        auto owner_of = [&](int m) { for (int i = 0; i < NS; i++) if (slot[i] && owns[i] == m) return i; return -1; };
        auto check = [&](const char *after) {
            for (int m = 0; m < 2 && err.empty(); m++) {
                bool model_locked = owner_of(m) >= 0;
                cocls::mutex::ownership probe = (*mxs)[(size_t)m].try_lock();
                if ((bool)probe == model_locked) err = std::string("after ") + after + ": mutex " + std::to_string(m) + (model_locked ? " could be locked although a live ownership object holds it (two owners)" : " is still locked although no ownership object holds it any more");
            } // probes release at scope end
        };
        for (int step = 0; step < len && err.empty(); step++) {
            int i = (int)r.below(NS), j = (int)r.below(NS), m = (int)r.below(2);
            uint32_t x = r.below(100);
            if (x < 30) { // try_lock into slot i (replacing whatever the slot held: move assignment over it)
                trace += "s" + std::to_string(i) + "=try_lock(m" + std::to_string(m) + ") ";
                bool free_now = owner_of(m) < 0;
                cocls::mutex::ownership got = (*mxs)[(size_t)m].try_lock();
                if ((bool)got != free_now) { err = "try_lock result disagrees with the model"; break; }
                if (!slot[i]) slot[i].emplace(std::move(got)); else *slot[i] = std::move(got); // old ownership of the slot is released by the assignment
                owns[i] = free_now ? m : -1;
            } else if (x < 50 && slot[i] && slot[j] && i != j) { // move assignment: target's mutex is released, source becomes empty
                trace += "s" + std::to_string(i) + "=move(s" + std::to_string(j) + ") ";
                *slot[i] = std::move(*slot[j]);
                owns[i] = owns[j]; owns[j] = -1;
            } else if (x < 60 && slot[j] && !slot[i]) { // move construction
                trace += "s" + std::to_string(i) + "(move(s" + std::to_string(j) + ")) ";
                slot[i].emplace(std::move(*slot[j]));
                owns[i] = owns[j]; owns[j] = -1;
            } else if (x < 80 && slot[i]) { // release(), discarded (ordinary code); releasing an empty / already released object does nothing
                trace += "s" + std::to_string(i) + ".release() ";
                slot[i]->release();
                owns[i] = -1;
            } else if (x < 92 && slot[i]) { // destruction
                trace += "~s" + std::to_string(i) + " ";
                slot[i].reset(); owns[i] = -1;
            } else if (x < 96 && slot[i]) { // self move-assignment must keep the ownership
                trace += "s" + std::to_string(i) + "=move(self) ";
                cocls::mutex::ownership &ref = *slot[i];
                *slot[i] = std::move(ref);
            } else continue;
            check(trace.c_str());
        }
        // a coroutine parked on each still locked mutex is granted exactly when the last ownership object goes away
        own_waiter w[2];
        for (int m = 0; m < 2 && err.empty(); m++) if (owner_of(m) >= 0) {
            own_wait_coro((*mxs)[(size_t)m], w[m]).detach();
            if (w[m].granted) err = "waiter granted while an ownership object still holds the mutex";
            int k = owner_of(m);
            if (r.chance(1, 2)) slot[k].reset(); else slot[k]->release();
            owns[k] = -1;
            if (err.empty() && w[m].granted != 1) err = "waiter was granted " + std::to_string(w[m].granted) + " times when the ownership was given up";
            w[m].held.release();
        }
        for (auto &s2 : slot) s2.reset();
        if (err.empty()) { for (auto &x : owns) x = -1; check("destruction of all ownership objects"); }
        R.cases++;
        if (!err.empty()) { R.violation("monitor:ownership|ownership_object_history", err, vf::jobj().kv("history", (unsigned long long)hn).kv("seed", (unsigned long long)o.seed).kv("ops", trace).str()); (void)mxs.release(); continue; }
        if (len >= 4) { R.nontrivial_cases++; R.sig(trace); }
        if (R.samples.size() < 2 && len > 8) R.sample(vf::jobj().kv("ops", trace).kv("result", "each mutex locked iff exactly one live ownership object holds it").str());
    }
}


// ---------------------------------------------------------------------------------------------
// Parties that are plain state machines (no coroutines) and use the CALLBACK flavour of the lock request
// (co_awaiter<mutex>::await_suspend(resume_fn, ctx)). A party may "pipeline": while it still owns the mutex it files its request for
// the next turn and then releases the current ownership with ownership::release(); if its own request heads the queue, the grant
// callback runs re-entrantly INSIDE release() and stores the new ownership into the very object that is being released. Parties may
// also leave straight from the grant callback. Oracle: a FIFO model of the same program (at most one owner, every request granted
// exactly once, grants in arrival order, probes with try_lock succeed exactly when the model says the mutex is free).
struct mcp_world;
struct mcp_party {
    mcp_world *W = nullptr; int id = 0;
    int turns_left = 0; bool leave_in_callback = false;
    cocls::mutex::ownership own;
    std::optional<cocls::co_awaiter<cocls::mutex>> req;
    int requests = 0, grants = 0; bool inside = false, pending = false;
    static cocls::suspend_point<void> granted_cb(cocls::awaiter *, void *ctx) noexcept { static_cast<mcp_party *>(ctx)->granted(); return {}; }
    void request();
    void granted();
    void leave();
};
struct mcp_world {
    cocls::mutex mx;
    mcp_party P[3];
    int owners = 0; std::string err;
    std::vector<int> grant_order;           // observed
    // model
    int m_owner = -1; std::deque<int> m_fifo; std::vector<int> m_grants; int m_turns[3] = {}; bool m_lic[3] = {};
    void m_request(int p) { if (m_owner < 0) m_grant(p); else m_fifo.push_back(p); }
    void m_grant(int p) { m_owner = p; m_grants.push_back(p); if (m_lic[p]) m_leave(p); }
    void m_leave(int p) {
        if (m_turns[p] > 0) { m_turns[p]--; m_request(p); }
        m_owner = -1;
        if (!m_fifo.empty()) { int q = m_fifo.front(); m_fifo.pop_front(); m_grant(q); }
    }
};
inline void mcp_party::request() {
    requests++; pending = true;
    req.emplace(W->mx.lock());
    if (req->await_ready() || !req->await_suspend(&granted_cb, this)) granted();
}
inline void mcp_party::granted() {
    grants++; pending = false;
    if (grants > requests && W->err.empty()) W->err = "a lock request was granted more than once";
    own = req->await_resume();
    inside = true;
    W->grant_order.push_back(id);
    if (++W->owners > 1 && W->err.empty()) W->err = "two parties own the mutex at the same time";
    if (leave_in_callback) leave();
}
inline void mcp_party::leave() {
    if (turns_left > 0 && !pending) { turns_left--; request(); } // file the request for the next turn first
    inside = false; W->owners--;
    own.release();
}
inline void mutex_callback_parties(const vf::opts &o, vf::report &R, uint64_t cases) {
    vf::rng master(vf::mix(o.seed, 0x07cb));
    for (uint64_t cn = 0; cn < cases && R.nviol() < 5; cn++) {
        vf::rng r(master.next());
        vf::set_crash_ctx(R.prop.c_str(), "mutex_callback_parties", o.seed, cn);
        auto Wp = std::make_unique<mcp_world>(); mcp_world &W = *Wp;
        int np = 1 + (int)r.below(3);
        std::string desc = "parties:";
        for (int i = 0; i < np; i++) {
            mcp_party &p = W.P[i]; p.W = &W; p.id = i;
            p.turns_left = W.m_turns[i] = r.chance(1, 8) ? 20 + (int)r.below(40) : (int)r.below(4);
            p.leave_in_callback = W.m_lic[i] = r.chance(1, 4);
            desc += " P" + std::to_string(i) + "(turns=" + std::to_string(p.turns_left) + (p.leave_in_callback ? ",leaves from the grant callback" : "") + ")";
        }
        desc += " |";
        std::optional<cocls::mutex::ownership> hold; // ordinary code may hold the mutex itself (model owner 9)
        auto compare = [&](const char *after) {
            if (!W.err.empty()) return;
            if (W.grant_order != W.m_grants) { W.err = std::string("after ") + after + ": grants happened in a different order / number than first-come-first-served (observed " + std::to_string(W.grant_order.size()) + ", model " + std::to_string(W.m_grants.size()) + ")"; return; }
            for (int i = 0; i < np; i++) if (W.P[i].inside != (W.m_owner == i)) { W.err = std::string("after ") + after + ": party " + std::to_string(i) + (W.P[i].inside ? " is inside although the model says it is not the owner" : " is not inside although it heads the queue of a released mutex"); return; }
            for (int i = 0; i < np; i++) if (W.P[i].inside && !W.P[i].own) { W.err = std::string("after ") + after + ": party " + std::to_string(i) + " was granted the mutex but its ownership object is empty"; return; }
        };
        int len = 3 + (int)r.below(16);
        for (int step = 0; step < len && W.err.empty(); step++) {
            uint32_t x = r.below(100); int p = (int)r.below((uint32_t)np);
            mcp_party &Pp = W.P[p];
            if (x < 40) { if (Pp.pending || (Pp.inside && r.chance(1, 2))) continue; desc += " request(" + std::to_string(p) + ")"; W.m_request(p); Pp.request(); compare("request"); }
            else if (x < 75) { if (!Pp.inside) continue; desc += " leave(" + std::to_string(p) + ")"; if (Pp.pending) { /* request already filed: plain release */ int t = W.m_turns[p]; W.m_turns[p] = 0; W.m_leave(p); W.m_turns[p] = t; } else W.m_leave(p); Pp.leave(); compare("leave"); }
            else if (x < 85 && !hold && W.m_owner < 0) { desc += " hold"; hold.emplace(W.mx.try_lock()); if (!*hold) W.err = "try_lock failed on a free mutex"; else W.m_owner = 9; }
            else if (x < 92 && hold) { desc += " unhold"; W.m_owner = -1; if (!W.m_fifo.empty()) { int q = W.m_fifo.front(); W.m_fifo.pop_front(); W.m_grant(q); } hold->release(); hold.reset(); compare("release by ordinary code"); }
            else { desc += " probe"; auto pr = W.mx.try_lock(); bool free_ = W.m_owner < 0; if ((bool)pr != free_) W.err = free_ ? "try_lock failed although every ownership has been released" : "try_lock succeeded while a party holds the mutex"; }
        }
        // drain: ordinary code lets go, then every inside party leaves until nobody is queued
        if (W.err.empty() && hold) { W.m_owner = -1; if (!W.m_fifo.empty()) { int q = W.m_fifo.front(); W.m_fifo.pop_front(); W.m_grant(q); } hold->release(); hold.reset(); compare("final release by ordinary code"); }
        for (int guard = 0; guard < 400 && W.err.empty() && W.m_owner >= 0; guard++) { int p = W.m_owner; if (W.P[p].pending) { int t = W.m_turns[p]; W.m_turns[p] = 0; W.m_leave(p); W.m_turns[p] = t; } else W.m_leave(p); W.P[p].leave(); compare("drain"); }
        if (W.err.empty()) { auto pr = W.mx.try_lock(); if (!pr) W.err = "mutex not free after everybody left"; }
        for (int i = 0; i < np && W.err.empty(); i++) if (W.P[i].grants != W.P[i].requests) W.err = "party " + std::to_string(i) + ": " + std::to_string(W.P[i].requests) + " requests, " + std::to_string(W.P[i].grants) + " grants";
        R.cases++;
        if (!W.err.empty()) { R.violation("monitor:callback_party|mutex_callback_parties", W.err, vf::jobj().kv("case", (unsigned long long)cn).kv("seed", (unsigned long long)o.seed).kv("program", desc).str()); (void)Wp.release(); continue; }
        bool nontrivial = W.grant_order.size() >= 3;
        if (nontrivial) R.nontrivial_cases++;
        R.sig(desc, nontrivial);
        R.cls("callback_party_grants", (uint64_t)W.grant_order.size());
    }
}

} // namespace scn
