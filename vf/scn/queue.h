// scenarios for cocls::queue / cocls::limited_queue (C09, C10; MT parts also feed the C03 TSan workload)
#pragma once
#include <array>
#include <functional>
#include <vf/team.h>
#include <vf/payload.h>
#include <cocls/queue.h>
#include <cocls/async.h>
#include <deque>
#include <memory>

namespace scn {
using namespace cocls::verif;
using vf::tracked;
using qitem = vf::tracked_thr; // element type of the single-thread histories: counted payload whose in-place construction can throw

enum { PS_PENDING = 0, PS_VALUE = 1, PS_EXC = 2, PS_CANCELED = 3 };
inline const char *ps_name(int s) { static const char *n[] = {"pending", "value", "exception", "canceled"}; return n[s]; }

struct outcome {
    int state = PS_PENDING;
    uint64_t val = 0;
    int code = 0;
    bool operator==(const outcome &o) const {
        return state == o.state && (state != PS_VALUE || val == o.val) && (state != PS_EXC || code == o.code);
    }
    std::string str() const {
        if (state == PS_VALUE) return "value:" + std::to_string(val);
        if (state == PS_EXC) return "exc:" + std::to_string(code);
        return ps_name(state);
    }
};

// observes a future<tracked> / future<void> without blocking
template <typename T> outcome observe_future(cocls::future<T> &f) {
    outcome o;
    if (!f.ready()) return o;
    try {
        if constexpr (std::is_void_v<T>) { f.value(); o.state = PS_VALUE; o.val = 0; }
        else {
            auto &v = f.value();
            o.state = PS_VALUE; o.val = v.ok() ? v.id : 0xBADBADBAD;
        }
    } catch (const vf::test_exc &e) { o.state = PS_EXC; o.code = e.code; }
    catch (const cocls::await_canceled_exception &) { o.state = PS_CANCELED; }
    catch (...) { o.state = PS_EXC; o.code = -99; }
    return o;
}

struct pop_rec {
    int mode = 0; // 0 raw future, 1 coroutine consumer
    std::unique_ptr<cocls::future<qitem>> fut;
    outcome seen;     // written by the coroutine consumer
    int resumed = 0;  // coroutine consumer: times it continued after the co_await
};
struct push_rec {
    int mode = 0;
    std::unique_ptr<cocls::future<void>> fut;
    outcome seen;
    int resumed = 0;
};

template <typename Q> cocls::async<void> pop_consumer(Q &q, pop_rec &rec) {
    try {
        uint64_t id;
        {
            auto f = q.pop();
            auto &v = co_await f;
            id = v.ok() ? v.id : 0xBADBADBAD;
        }
        rec.resumed++;
        rec.seen.state = PS_VALUE; rec.seen.val = id;
    } catch (const vf::test_exc &e) { rec.resumed++; rec.seen.state = PS_EXC; rec.seen.code = e.code; }
    catch (const cocls::await_canceled_exception &) { rec.resumed++; rec.seen.state = PS_CANCELED; }
}
template <typename Q> cocls::async<void> push_producer(Q &q, push_rec &rec, uint64_t id) {
    try {
        co_await q.push(id);
        rec.resumed++;
        rec.seen.state = PS_VALUE;
    } catch (const vf::test_exc &e) { rec.resumed++; rec.seen.state = PS_EXC; rec.seen.code = e.code; }
    catch (const cocls::await_canceled_exception &) { rec.resumed++; rec.seen.state = PS_CANCELED; }
}

// ---------------------------------------------------------------------------------------------
// reference model of the statement (C09 for limit==0 "unbounded", C10 for limit>0)
struct q_model {
    size_t limit = 0; // 0 = unbounded
    std::deque<uint64_t> items;
    std::deque<int> waiting_pops;
    std::deque<std::pair<int, uint64_t>> parked; // (push index, item)
    std::vector<outcome> pops, pushes;
    int push(uint64_t v) { // returns push index
        int idx = (int)pushes.size();
        pushes.push_back({});
        if (!waiting_pops.empty()) {
            int p = waiting_pops.front(); waiting_pops.pop_front();
            pops[p].state = PS_VALUE; pops[p].val = v;
            pushes[idx].state = PS_VALUE;
        } else if (limit == 0 || items.size() < limit) {
            items.push_back(v); pushes[idx].state = PS_VALUE;
        } else parked.push_back({idx, v});
        return idx;
    }
    int pop() {
        int idx = (int)pops.size();
        pops.push_back({});
        if (!items.empty()) {
            pops[idx].state = PS_VALUE; pops[idx].val = items.front(); items.pop_front();
            if (!parked.empty()) {
                auto pr = parked.front(); parked.pop_front();
                items.push_back(pr.second); pushes[pr.first].state = PS_VALUE;
            }
        } else waiting_pops.push_back(idx);
        return idx;
    }
    bool unblock_pop(int code) {
        if (waiting_pops.empty()) return false;
        int p = waiting_pops.front(); waiting_pops.pop_front();
        pops[p].state = PS_EXC; pops[p].code = code;
        return true;
    }
    bool unblock_push(int code) {
        if (parked.empty()) return false;
        auto pr = parked.front(); parked.pop_front();
        pushes[pr.first].state = PS_EXC; pushes[pr.first].code = code;
        return true;
    }
    void destroy() {
        for (int p : waiting_pops) pops[p].state = PS_CANCELED;
        waiting_pops.clear();
        for (auto &pr : parked) pushes[pr.first].state = PS_CANCELED;
        parked.clear();
        items.clear();
    }
};

enum { QO_PUSH = 0, QO_POP = 1, QO_UNBLOCK_POP = 2, QO_UNBLOCK_PUSH = 3, QO_SIZE = 4, QO_DESTROY = 5, QO_PUSH_THROW = 6 };
inline const char *qo_name(int o) { static const char *n[] = {"push", "pop", "unblock_pop", "unblock_push", "size", "destroy", "push(unconstructible)"}; return n[o]; }

struct q_step { int op; int mode; };

// Runs one history on a real queue and the model in lock step. Returns "" or a description of the first disagreement.
// Limited=false: cocls::queue<tracked>; Limited=true: cocls::limited_queue<tracked>(limit)
template <bool Limited>
std::string run_queue_history(const std::vector<q_step> &steps, size_t limit, bool coro_mode, std::string &trace) {
    using Q = std::conditional_t<Limited, cocls::limited_queue<qitem>, cocls::queue<qitem>>;
    std::unique_ptr<Q> q;
    if constexpr (Limited) q = std::make_unique<Q>(limit); else q = std::make_unique<Q>();
    q_model M; M.limit = Limited ? limit : 0;
    std::deque<pop_rec> pops;
    std::deque<push_rec> pushes;
    std::string err;
    uint64_t next_val = 100;
    long live0 = tracked::live.load(), bad0 = tracked::bad.load();
    auto compare = [&](const char *after) {
        if (!err.empty()) return;
        for (size_t i = 0; i < pops.size(); i++) {
            outcome o = pops[i].mode == 0 ? observe_future(*pops[i].fut) : pops[i].seen;
            if (!(o == M.pops[i])) { err = std::string("after ") + after + ": pop#" + std::to_string(i) + " is " + o.str() + ", model says " + M.pops[i].str(); return; }
            if (pops[i].mode == 1 && pops[i].resumed > 1) { err = "pop consumer resumed twice"; return; }
        }
        for (size_t i = 0; i < pushes.size(); i++) {
            outcome o = pushes[i].mode == 0 ? observe_future(*pushes[i].fut) : pushes[i].seen;
            if (!(o == M.pushes[i])) { err = std::string("after ") + after + ": push#" + std::to_string(i) + " is " + o.str() + ", model says " + M.pushes[i].str(); return; }
        }
        if (q) {
            size_t sz = q->size();
            if (sz != M.items.size()) { err = std::string("after ") + after + ": size()=" + std::to_string(sz) + ", model says " + std::to_string(M.items.size()); return; }
            if (q->empty() != M.items.empty()) { err = "empty() disagrees with the model"; return; }
        }
    };
    auto body = [&]() {
        for (size_t si = 0; si < steps.size() && err.empty(); si++) {
            const q_step &s = steps[si];
            if (!q && s.op != QO_DESTROY) continue;
            trace += std::string(qo_name(s.op)) + (s.mode ? "c" : "") + " ";
            switch (s.op) {
            case QO_PUSH: {
                uint64_t v = next_val++;
                bool mwoke = !M.waiting_pops.empty();
                (void)mwoke;
                M.push(v);
                if constexpr (Limited) {
                    pushes.emplace_back();
                    push_rec &pr = pushes.back();
                    pr.mode = s.mode;
                    if (s.mode == 0) pr.fut = std::unique_ptr<cocls::future<void>>(new cocls::future<void>(q->push(v)));
                    else if (!coro_mode) push_producer(*q, pr, v).detach();
                    else { auto sp = push_producer(*q, pr, v).detach(); sp.pop().resume(); } // start now, not at drain time
                } else {
                    bool woke = q->push(v); // discarded suspend point: a woken consumer runs right here (normal mode)
                    if (woke != mwoke) err = std::string("push reported ") + (woke ? "'consumer woken'" : "'queued'") + ", model says the opposite";
                    pushes.emplace_back(); pushes.back().mode = 1; pushes.back().seen.state = PS_VALUE;
                }
                break;
            }
            case QO_POP: {
                M.pop();
                pops.emplace_back();
                pop_rec &pr = pops.back();
                pr.mode = s.mode;
                if (s.mode == 0) pr.fut = std::unique_ptr<cocls::future<qitem>>(new cocls::future<qitem>(q->pop()));
                else if (!coro_mode) pop_consumer(*q, pr).detach();
                else { auto sp = pop_consumer(*q, pr).detach(); sp.pop().resume(); } // start now, not at drain time
                break;
            }
            case QO_UNBLOCK_POP: {
                if constexpr (!Limited) {
                    int code = (int)si + 1;
                    bool m = M.unblock_pop(code);
                    bool r = q->unblock_pop(vf::make_exc(code));
                    if (r != m) err = std::string("unblock_pop returned ") + (r ? "true" : "false") + ", model says " + (m ? "true" : "false");
                }
                break;
            }
            case QO_UNBLOCK_PUSH: {
                if constexpr (Limited) {
                    int code = (int)si + 1;
                    bool m = M.unblock_push(code);
                    bool r = q->unblock_push(vf::make_exc(code));
                    if (r != m) err = std::string("unblock_push returned ") + (r ? "true" : "false") + ", model says " + (m ? "true" : "false");
                }
                break;
            }
            case QO_PUSH_THROW: { // emplace-style push whose item constructor throws (only generated in normal mode)
                int code = 9000 + (int)si;
                try {
                    if constexpr (Limited) { cocls::future<void> f = q->push(vf::bomb{code}); if (!f.ready()) err = "push of an unconstructible item returned a pending future"; }
                    else { bool woke = q->push(vf::bomb{code}); (void)woke; }
                } catch (const vf::test_exc &e) { if (e.code != code) err = "foreign exception escaped push"; }
                // The statement does not prescribe the fate of the pop that was about to receive the unconstructible item: it may complete
                // with the constructor's exception (or as cancelled), or keep waiting - then it must still be first in line. Nothing is
                // stored and nobody else is affected (checked by the comparison with the model below and after every later step).
                if (!M.waiting_pops.empty()) {
                    int p = M.waiting_pops.front();
                    outcome ob = pops[(size_t)p].mode == 0 ? observe_future(*pops[(size_t)p].fut) : pops[(size_t)p].seen;
                    if ((ob.state == PS_EXC && ob.code == code) || ob.state == PS_CANCELED) { M.waiting_pops.pop_front(); M.pops[(size_t)p] = ob; }
                }
                break;
            }
            case QO_SIZE: break; // size/empty are compared after every step anyway
            case QO_DESTROY: {
                if (q) { M.destroy(); q.reset(); }
                break;
            }
            }
            if (coro_mode) continue; // woken coroutines run only after the driver yields; compared by the caller
            compare(qo_name(s.op));
        }
    };
    if (!coro_mode) body();
    else {
        // coroutine mode: whole history inside an installed ready queue; woken consumers run when the block ends
        cocls::coro_queue::install_queue_and_call(body);
        compare("history (coroutine mode, after the ready queue drained)");
    }
    if (q) { M.destroy(); q.reset(); trace += "destroy "; compare("final destroy"); }
    // all futures resolved now; drop them and check instance conservation
    pops.clear(); pushes.clear();
    if (err.empty() && tracked::live.load() != live0) err = "payload instances leaked or destroyed twice: live delta " + std::to_string(tracked::live.load() - live0);
    if (err.empty() && tracked::bad.load() != bad0) err = "payload destroyed twice / read while dead";
    return err;
}

template <bool Limited>
void queue_history(const vf::opts &o, vf::report &R, uint64_t histories) {
    vf::rng master(vf::mix(o.seed, Limited ? 0x10 : 0x09));
    const char *scen = Limited ? "lqueue_history" : "queue_history";
    for (uint64_t hn = 0; hn < histories && R.nviol() < 5; hn++) {
        vf::rng r(master.next());
        vf::set_crash_ctx(R.prop.c_str(), scen, o.seed, hn);
        size_t limit = Limited ? 1 + r.below(4) : 0;
        int len = 1 + (int)r.below(r.chance(1, 4) ? 40 : 14);
        // long runs on ONE queue object: hundreds of items / parked producers / waiting consumers build up and drain again (container
        // growth and node boundaries, effects that only show after many operations on the same object)
        bool longrun = r.chance(1, 80);
        if (longrun) { len = 150 + (int)r.below(450); if (Limited && r.chance(1, 2)) limit = 30 + r.below(70); }
        bool coro_mode = r.chance(1, 5);
        std::vector<q_step> steps;
        // bias: phases of producer-heavy / consumer-heavy traffic so that both blocked producers and waiting consumers build up
        int bias = (int)r.below(3);
        for (int i = 0; i < len; i++) {
            if (!longrun && i % 6 == 0 && r.chance(1, 2)) bias = (int)r.below(3);
            if (longrun && i % 100 == 0) bias = (int)r.below(2); // long phases: producer-heavy, then consumer-heavy
            uint32_t x = r.below(100);
            int op;
            int pushw = bias == 0 ? 60 : (bias == 1 ? 25 : 42);
            if (x < (uint32_t)pushw) op = QO_PUSH;
            else if (x < 85) op = QO_POP;
            else if (x < 95) op = Limited ? QO_UNBLOCK_PUSH : QO_UNBLOCK_POP;
            else if (x < 98) op = QO_SIZE;
            else op = QO_DESTROY;
            if (longrun && op == QO_DESTROY && i < len - 5) op = QO_SIZE;
            if (op == QO_PUSH && !coro_mode && r.chance(1, 12)) op = QO_PUSH_THROW;
            steps.push_back({op, (int)r.chance(1, 2)});
        }
        std::string trace;
        std::string err = run_queue_history<Limited>(steps, limit, coro_mode, trace);
        R.cases++;
        std::string desc = std::string(Limited ? "limit=" + std::to_string(limit) + " " : "") + (coro_mode ? "[coroutine mode] " : "") + trace;
        if (!err.empty()) {
            R.violation(std::string("monitor:model_mismatch|") + scen, err,
                        vf::jobj().kv("scenario", scen).kv("seed", (unsigned long long)o.seed).kv("history", (unsigned long long)hn)
                            .kv("limit", (unsigned long long)limit).kv("coroutine_mode", coro_mode).kv("ops", trace).kv("disagreement", err).str());
            continue;
        }
        bool nontrivial = len >= 3;
        if (nontrivial) R.nontrivial_cases++;
        R.sig(desc, nontrivial);
        R.cls(coro_mode ? "history_coroutine_mode" : "history_normal_mode");
        if (longrun) R.cls("long_histories_150_to_600_ops_on_one_queue");
        if (R.samples.size() < 3 && len > 6 && !longrun) R.sample(vf::jobj().kv("ops", desc).kv("result", "agrees with the reference model after every step").str());
    }
}

// complete enumeration of short histories (bounded queue, raw futures): limits 1..2, length <= maxlen
inline void lqueue_exhaustive(const vf::opts &o, vf::report &R, int maxlen) {
    static const int alphabet[] = {QO_PUSH, QO_POP, QO_UNBLOCK_PUSH};
    uint64_t total = 0;
    for (size_t limit = 1; limit <= 2; limit++) {
        for (int len = 1; len <= maxlen; len++) {
            uint64_t n = 1;
            for (int i = 0; i < len; i++) n *= 3;
            for (uint64_t code = 0; code < n && R.nviol() < 5; code++) {
                std::vector<q_step> steps;
                uint64_t c = code;
                for (int i = 0; i < len; i++) { steps.push_back({alphabet[c % 3], 0}); c /= 3; }
                std::string trace;
                vf::set_crash_ctx(R.prop.c_str(), "lqueue_exhaustive", o.seed, code);
                std::string err = run_queue_history<true>(steps, limit, false, trace);
                R.cases++; total++;
                if (!err.empty()) {
                    R.violation("monitor:model_mismatch|lqueue_exhaustive", err,
                                vf::jobj().kv("scenario", "lqueue_exhaustive").kv("limit", (unsigned long long)limit).kv("ops", trace).kv("disagreement", err).str());
                } else if (len >= 3) { R.nontrivial_cases++; R.sig("x" + std::to_string(limit) + ":" + trace); }
            }
        }
    }
    R.extra["exhaustive_histories"] = std::to_string(total);
    R.extra["exhaustive_space"] = vf::jstr("all sequences over {push,pop,unblock_push} of length 1.." + std::to_string(maxlen) + " for limits 1 and 2");
}

// queue<void>: counting semaphore whose count is conserved
inline void queue_void_history(const vf::opts &o, vf::report &R, uint64_t histories) {
    vf::rng master(vf::mix(o.seed, 0x99));
    for (uint64_t hn = 0; hn < histories && R.nviol() < 5; hn++) {
        vf::rng r(master.next());
        vf::set_crash_ctx(R.prop.c_str(), "queue_void_history", o.seed, hn);
        auto q = std::make_unique<cocls::queue<void>>();
        long count = 0; std::deque<int> waiting; // model
        std::deque<std::unique_ptr<cocls::future<void>>> pops;
        std::vector<int> mstate; // model pop state
        int len = 1 + (int)r.below(20);
        std::string trace, err;
        for (int i = 0; i < len && err.empty(); i++) {
            uint32_t x = r.below(10);
            if (x < 4) {
                trace += "push ";
                q->push();
                if (!waiting.empty()) { mstate[waiting.front()] = PS_VALUE; waiting.pop_front(); } else count++;
            } else if (x < 8) {
                trace += "pop ";
                pops.push_back(std::unique_ptr<cocls::future<void>>(new cocls::future<void>(q->pop())));
                mstate.push_back(PS_PENDING);
                if (count > 0) { count--; mstate.back() = PS_VALUE; } else waiting.push_back((int)mstate.size() - 1);
            } else {
                trace += "unblock_pop ";
                bool rr = q->unblock_pop(vf::make_exc(i + 1));
                bool m = !waiting.empty();
                if (m) { mstate[waiting.front()] = PS_EXC; waiting.pop_front(); }
                if (rr != m) err = "unblock_pop result disagrees";
            }
            for (size_t k = 0; k < pops.size() && err.empty(); k++) {
                outcome oc = observe_future(*pops[k]);
                if (oc.state != mstate[k]) err = "pop#" + std::to_string(k) + " is " + oc.str() + " model " + ps_name(mstate[k]);
            }
            if (err.empty() && (long)q->size() != count) err = "size()=" + std::to_string(q->size()) + " but pushes-minus-completed-pops=" + std::to_string(count);
        }
        q.reset();
        for (size_t k = 0; k < pops.size() && err.empty(); k++) {
            outcome oc = observe_future(*pops[k]);
            int want = mstate[k] == PS_PENDING ? PS_CANCELED : mstate[k];
            if (oc.state != want) err = "after destroy pop#" + std::to_string(k) + " is " + oc.str();
        }
        R.cases++;
        if (!err.empty()) R.violation("monitor:model_mismatch|queue_void_history", err, vf::jobj().kv("ops", trace).kv("disagreement", err).kv("history", (unsigned long long)hn).str());
        else if (len >= 3) { R.nontrivial_cases++; R.sig("v:" + trace); }
    }
}

// ---------------------------------------------------------------------------------------------
// multi-threaded rounds: conservation, per-producer order, exceptions accounted for
template <bool Limited> struct qmt_round {
    using Q = std::conditional_t<Limited, cocls::limited_queue<tracked>, cocls::queue<tracked>>;
    std::unique_ptr<Q> q;
    int nprod = 1, ncons = 1;
    int nitems[3] = {}, npops[3] = {};
    int prod_kind[3] = {}, cons_kind[3] = {}; // 0 coroutine, 1 blocking
    int unblocker[3] = {};                    // producer p calls unblock_* this many times after its pushes
    std::vector<uint64_t> got[3];
    std::atomic<int> cons_finished[3], prod_finished[3];
    std::atomic<int> exc_seen{0}, unblock_true{0}, bad_payload{0};
    struct pushinfo { uint64_t t_call, t_ret; };
    std::vector<pushinfo> pinfo[3];
    qmt_round() { for (int i = 0; i < 3; i++) { cons_finished[i] = 0; prod_finished[i] = 0; } }
};
inline uint64_t item_id(int p, int seq) { return (uint64_t)(p + 1) * 1000 + (uint64_t)seq; }

template <bool Limited> cocls::async<void> qmt_consumer(qmt_round<Limited> &X, int c) {
    int have = 0;
    while (have < X.npops[c]) {
        try {
            uint64_t id;
            {
                cocls::future<tracked> f = X.q->pop();
                tracked &v = co_await f;
                if (!v.ok()) X.bad_payload.fetch_add(1, std::memory_order_relaxed);
                id = v.id;
            }
            X.got[c].push_back(id);
            have++;
        } catch (const vf::test_exc &) { X.exc_seen.fetch_add(1, std::memory_order_relaxed); }
    }
    X.cons_finished[c].store(1, std::memory_order_relaxed);
}
template <bool Limited> cocls::async<void> qmt_producer(qmt_round<Limited> &X, int p) {
    int seq = 0;
    while (seq < X.nitems[p]) {
        try {
            co_await X.q->push(item_id(p, seq));
            seq++;
        } catch (const vf::test_exc &) { X.exc_seen.fetch_add(1, std::memory_order_relaxed); }
    }
    X.prod_finished[p].store(1, std::memory_order_relaxed);
}

template <bool Limited> void qmt_role(qmt_round<Limited> &X, int tid, uint64_t rseed) {
    vf::start_offset(rseed, tid);
    if (tid < X.nprod) {
        int p = tid;
        if (Limited && X.prod_kind[p] == 0) {
            if constexpr (Limited) qmt_producer<Limited>(X, p).detach();
        } else {
            for (int s = 0; s < X.nitems[p];) {
                uint64_t t0 = vf::rdtsc();
                if constexpr (Limited) {
                    try { X.q->push(item_id(p, s)).wait(); s++; }
                    catch (const vf::test_exc &) { X.exc_seen.fetch_add(1, std::memory_order_relaxed); }
                } else {
                    X.q->push(item_id(p, s));
                    X.pinfo[p].push_back({t0, vf::rdtsc()});
                    s++;
                }
            }
            X.prod_finished[p].store(1, std::memory_order_relaxed);
        }
        for (int k = 0; k < X.unblocker[p]; k++) {
            bool ok;
            if constexpr (Limited) ok = X.q->unblock_push(vf::make_exc(7)); else ok = X.q->unblock_pop(vf::make_exc(7));
            if (ok) X.unblock_true.fetch_add(1, std::memory_order_relaxed);
        }
    } else if (tid < X.nprod + X.ncons) {
        int c = tid - X.nprod;
        if (X.cons_kind[c] == 0) qmt_consumer<Limited>(X, c).detach();
        else {
            int have = 0;
            while (have < X.npops[c]) {
                try {
                    cocls::future<tracked> f = X.q->pop();
                    tracked &v = f.wait();
                    if (!v.ok()) X.bad_payload.fetch_add(1, std::memory_order_relaxed);
                    X.got[c].push_back(v.id);
                    have++;
                } catch (const vf::test_exc &) { X.exc_seen.fetch_add(1, std::memory_order_relaxed); }
            }
            X.cons_finished[c].store(1, std::memory_order_relaxed);
        }
    }
}

template <bool Limited>
void queue_mt(const vf::opts &o, vf::report &R, vf::team &T, uint64_t rounds) {
    static const int sites[] = {q_push_unlocked, q_pop_entry, q_unblock_unlocked, lq_push_unlocked, lq_pop_unlocked, lq_unblock_unlocked,
                                prom_claim_pre, prom_claim_post, fut_set_post, aw_chain_pre, aw_chain_post, aw_chain_node, coaw_suspend,
                                aw_subchk_pre, aw_subchk_post, aw_subchk_retry, sync_pre_sub, sync_pre_wait, sync_wake_mid};
    const char *scen = Limited ? "lqueue_mt" : "queue_mt";
    vf::rng master(vf::mix(o.seed, Limited ? 0x110 : 0x109));
    for (uint64_t rn = 0; rn < rounds && R.nviol() < 5; rn++) {
        uint64_t rseed = master.next();
        vf::rng r(rseed);
        auto Xp = std::make_unique<qmt_round<Limited>>();
        auto &X = *Xp;
        size_t limit = 1 + r.below(3);
        if constexpr (Limited) X.q = std::make_unique<typename qmt_round<Limited>::Q>(limit); else X.q = std::make_unique<typename qmt_round<Limited>::Q>();
        int maxp = std::min(3, T.n - 1);
        X.nprod = 1 + (int)r.below((uint32_t)maxp);
        X.ncons = 1 + (int)r.below((uint32_t)std::min(3, T.n - X.nprod));
        int total = 0;
        for (int p = 0; p < X.nprod; p++) { X.nitems[p] = 1 + (int)r.below(5); total += X.nitems[p]; X.prod_kind[p] = (int)r.below(2); X.unblocker[p] = r.chance(1, 4) ? 1 + (int)r.below(2) : 0; }
        // distribute the pops so that every pop can complete: closed round
        for (int c = 0; c < X.ncons; c++) X.npops[c] = 0;
        for (int i = 0; i < total; i++) X.npops[r.below((uint32_t)X.ncons)]++;
        for (int c = 0; c < X.ncons; c++) X.cons_kind[c] = (int)r.below(2);
        std::string desc = "P" + std::to_string(X.nprod) + "C" + std::to_string(X.ncons) + (Limited ? " limit=" + std::to_string(limit) : "") + " items=";
        for (int p = 0; p < X.nprod; p++) desc += std::to_string(X.nitems[p]) + (X.prod_kind[p] ? "b" : "c") + (X.unblocker[p] ? "u" : "") + ",";
        desc += " pops=";
        for (int c = 0; c < X.ncons; c++) desc += std::to_string(X.npops[c]) + (X.cons_kind[c] ? "b" : "c") + ",";
        std::string plan = T.plan(r, sites, (int)(sizeof sites / sizeof sites[0]));
        vf::set_crash_ctx(R.prop.c_str(), scen, o.seed, rn, (desc + " ; " + plan).c_str());
        long live0 = tracked::live.load();
        T.round([&](int tid) { qmt_role<Limited>(X, tid, rseed); });
        R.cases++;
        // ---------------- oracles
        std::string err;
        for (int c = 0; c < X.ncons && err.empty(); c++) if (!X.cons_finished[c].load()) err = "consumer " + std::to_string(c) + " never completed although all items were pushed";
        for (int p = 0; p < X.nprod && err.empty(); p++) if (!X.prod_finished[p].load()) err = "producer " + std::to_string(p) + " never completed although all pops were issued";
        std::multiset<uint64_t> seen, want;
        for (int p = 0; p < X.nprod; p++) for (int s = 0; s < X.nitems[p]; s++) want.insert(item_id(p, s));
        for (int c = 0; c < X.ncons; c++) {
            std::map<uint64_t, int64_t> last;
            for (uint64_t id : X.got[c]) {
                seen.insert(id);
                uint64_t p = id / 1000; int64_t s = (int64_t)(id % 1000);
                if (last.count(p) && last[p] >= s && err.empty()) err = "consumer " + std::to_string(c) + " saw items of producer " + std::to_string(p - 1) + " out of order";
                last[p] = s;
            }
        }
        if (err.empty() && seen != want) {
            err = "items received != items pushed:";
            for (auto id : want) if (seen.count(id) != 1) err += " id" + std::to_string(id) + "x" + std::to_string(seen.count(id));
            for (auto id : seen) if (!want.count(id)) err += " unknown" + std::to_string(id);
        }
        if (err.empty() && X.bad_payload.load()) err = "consumer read a torn/dead payload";
        if (err.empty() && X.exc_seen.load() != X.unblock_true.load()) err = "exceptions observed (" + std::to_string(X.exc_seen.load()) + ") != successful unblock calls (" + std::to_string(X.unblock_true.load()) + ")";
        if (err.empty() && !Limited && X.ncons == 1) {
            // single consumer: pushes separated in real time must arrive in that order
            std::map<uint64_t, size_t> posn;
            for (size_t i = 0; i < X.got[0].size(); i++) posn[X.got[0][i]] = i;
            for (int a = 0; a < X.nprod && err.empty(); a++) for (size_t i = 0; i < X.pinfo[a].size() && err.empty(); i++)
                for (int b = 0; b < X.nprod && err.empty(); b++) for (size_t j = 0; j < X.pinfo[b].size(); j++) {
                    if (a == b) continue;
                    if (X.pinfo[a][i].t_ret + 3000 < X.pinfo[b][j].t_call && posn[item_id(a, (int)i)] > posn[item_id(b, (int)j)]) { err = "single consumer received a later push before an earlier one"; break; }
                }
        }
        auto witness = [&]() {
            std::vector<std::string> g;
            for (int c = 0; c < X.ncons; c++) g.push_back(vf::jnums(X.got[c]));
            return vf::jobj().kv("scenario", scen).kv("seed", (unsigned long long)o.seed).kv("round", (unsigned long long)rn).kv("roles", desc)
                .kv("stall_plan", plan).raw("received_per_consumer", vf::jarr(g)).kv("exceptions_seen", X.exc_seen.load()).kv("unblock_true", X.unblock_true.load()).str();
        };
        if (!err.empty()) { R.violation(std::string("monitor:conservation|") + scen, err, witness()); (void)Xp.release(); continue; }
        X.q.reset();
        for (int c = 0; c < X.ncons; c++) X.got[c].clear();
        if (tracked::live.load() != live0) { R.violation(std::string("monitor:payload_leak|") + scen, "payload instances leaked/destroyed twice", witness()); continue; }
        bool nontrivial = total >= 2;
        if (nontrivial) R.nontrivial_cases++;
        int waited = T.count_event(ev_subchk_pushed), saw_ready = T.count_event(ev_subchk_ready);
        R.sig(desc + " w" + std::to_string(waited) + "r" + std::to_string(saw_ready), nontrivial);
        R.cls("pops_that_waited", waited); R.cls("subscribe_lost_race_to_ready", saw_ready);
        R.cls("exceptions_via_unblock", X.exc_seen.load());
        if (T.stalls_fired_last_round()) R.cls("rounds_with_stall_fired");
        if (R.samples.size() < 3 && total > 3) R.sample(witness());
    }
}

// unblock_pop under contention: K consumers are parked in setup (their number is known exactly), thread 0 calls unblock_pop K+1 times
// while the other threads only call size()/empty(). Every one of the first K calls must report true and fail the OLDEST waiting pop.
struct qub_round {
    std::unique_ptr<cocls::queue<tracked>> q;
    std::deque<pop_rec> pops;
    int k = 0;
    std::atomic<int> stop{0};
    int results[8] = {};
};
inline void queue_unblock_contended(const vf::opts &o, vf::report &R, vf::team &T, uint64_t rounds) {
    static const int sites[] = {q_unblock_unlocked, prom_claim_pre, aw_chain_pre, q_pop_entry};
    vf::rng master(vf::mix(o.seed, 0x209));
    for (uint64_t rn = 0; rn < rounds && R.nviol() < 5; rn++) {
        uint64_t rseed = master.next();
        vf::rng r(rseed);
        auto Xp = std::make_unique<qub_round>();
        qub_round &X = *Xp;
        X.q = std::make_unique<cocls::queue<tracked>>();
        X.k = 1 + (int)r.below(4);
        for (int i = 0; i < X.k; i++) { X.pops.emplace_back(); X.pops.back().mode = 1; pop_consumer(*X.q, X.pops.back()).detach(); }
        std::string desc = "waiting_pops=" + std::to_string(X.k) + " readers=" + std::to_string(T.n - 1);
        std::string plan = T.plan(r, sites, 4);
        vf::set_crash_ctx(R.prop.c_str(), "queue_unblock_contended", o.seed, rn, (desc + "; " + plan).c_str());
        T.round([&](int tid) {
            vf::start_offset(rseed, tid);
            if (tid == 0) {
                for (int i = 0; i <= X.k; i++) X.results[i] = (bool)X.q->unblock_pop(vf::make_exc(100 + i));
                X.stop.store(1, std::memory_order_relaxed);
            } else {
                size_t acc = 0;
                while (!X.stop.load(std::memory_order_relaxed)) { acc += X.q->size(); acc += X.q->empty(); }
                (void)acc;
            }
        });
        R.cases++;
        std::string err;
        for (int i = 0; i < X.k && err.empty(); i++) {
            if (!X.results[i]) err = "unblock_pop #" + std::to_string(i) + " reported 'nobody is awaiting' while " + std::to_string(X.k - i) + " pops were waiting";
            else if (!(X.pops[(size_t)i].seen.state == PS_EXC && X.pops[(size_t)i].seen.code == 100 + i)) err = "unblock_pop #" + std::to_string(i) + " did not fail the oldest waiting pop (pop #" + std::to_string(i) + " saw " + X.pops[(size_t)i].seen.str() + ")";
        }
        if (err.empty() && X.results[X.k]) err = "unblock_pop reported true although nobody was waiting any more";
        if (!err.empty()) { R.violation("monitor:unblock|queue_unblock_contended", err, vf::jobj().kv("round", (unsigned long long)rn).kv("seed", (unsigned long long)o.seed).kv("desc", desc).kv("stall_plan", plan).str()); (void)Xp.release(); continue; }
        R.nontrivial_cases++;
        R.sig(desc + (T.stalls_fired_last_round() ? " S" : ""));
        if (rn < 2) R.sample(vf::jobj().kv("round", desc).kv("result", "every unblock_pop hit the oldest waiting pop").str());
    }
}


// ---------------------------------------------------------------------------------------------
// Items whose move empties the source (std::string), pushed as temporaries, as moved lvalues and as plain LVALUES that the producer
// keeps and pushes again (broadcast of one message variable to several queues / repeated pushes of one variable). Every pop must
// receive exactly the text the producer's expression had; a plain lvalue argument is the producer's own object and must still hold
// its text after the call, whether the item was stored or handed straight to a waiting pop.
template <typename Q> cocls::async<void> qs_popper(Q &q, std::vector<std::string> &got, int &done) {
    cocls::future<std::string> f = q.pop();
    bool hv = co_await f.has_value();
    if (hv) got.push_back(f.value());
    done++;
}
template <bool Limited>
void queue_string_values(const vf::opts &o, vf::report &R, uint64_t cases) {
    using Q = std::conditional_t<Limited, cocls::limited_queue<std::string>, cocls::queue<std::string>>;
    vf::rng master(vf::mix(o.seed, Limited ? 0x10a5 : 0x09a5));
    const char *scen = Limited ? "lqueue_string_values" : "queue_string_values";
    for (uint64_t cn = 0; cn < cases && R.nviol() < 5; cn++) {
        vf::rng r(master.next());
        vf::set_crash_ctx(R.prop.c_str(), scen, o.seed, cn);
        std::string err, desc;
        std::vector<std::string> got, pushed;
        int done = 0, pops = 0;
        {
            std::unique_ptr<Q> q;
            if constexpr (Limited) q = std::make_unique<Q>(2 + r.below(6)); else q = std::make_unique<Q>();
            std::string message = "message-" + std::to_string(cn) + "-kept by the producer and pushed again and again, long enough for the heap";
            int len = 3 + (int)r.below(12);
            for (int i = 0; i < len && err.empty(); i++) {
                uint32_t x = r.below(100);
                if (x < 40) { desc += "pop "; pops++; qs_popper(*q, got, done).detach(); }
                else if (Limited && (int)pushed.size() - pops >= 2) { desc += "- "; } // never park a producer here (back-pressure is the history check's business)
                else {
                    std::string text = message + "#" + std::to_string(i);
                    if (x < 52) { desc += "push(temporary) "; pushed.push_back(text); (void)q->push(std::string(text)); }
                    else if (x < 60) { std::size_t cnt = 40 + (std::size_t)i; char ch = (char)('A' + i % 26); desc += "push(count,char) "; pushed.push_back(std::string(cnt, ch)); (void)q->push(cnt, ch); } // in-place arguments: stored or handed to a waiting pop, the item is std::string(count, ch)
                    else if (x < 70) { desc += "push(moved lvalue) "; pushed.push_back(text); std::string lv = text; (void)q->push(std::move(lv)); }
                    else {
                        desc += "push(lvalue) "; pushed.push_back(message);
                        (void)q->push(message);
                        if (message.size() < 40 || message.compare(0, 8, "message-") != 0) err = "push(lvalue) changed the producer's own object (left '" + message.substr(0, 16) + "')";
                    }
                }
            }
            // drain what is left
            while (err.empty() && pops < (int)pushed.size()) { pops++; qs_popper(*q, got, done).detach(); }
            if constexpr (Limited) {
                // in-place construction arguments (count, char) - also for pushes that have to WAIT: the parked item must be built exactly
                // like the stored one (std::string(count, ch), not a two-character initializer list)
                if (err.empty() && done == pops) {
                    std::vector<std::unique_ptr<cocls::future<void>>> pf;
                    size_t n0 = pushed.size(), total = 3 + r.below(8);
                    for (size_t k = 0; k < total; k++) { std::size_t cnt = 30 + k; char ch = (char)('a' + k); pushed.push_back(std::string(cnt, ch)); pf.push_back(std::unique_ptr<cocls::future<void>>(new cocls::future<void>(q->push(cnt, ch)))); }
                    desc += "push(count,char)x" + std::to_string(total) + " (some blocked) ";
                    for (size_t k = 0; k < total; k++) { pops++; qs_popper(*q, got, done).detach(); }
                    for (auto &f : pf) if (!f->ready() && err.empty()) { err = "a blocked push did not complete although every item was popped"; for (auto &x : pf) (void)x.release(); }
                    (void)n0;
                }
            }
        } // queue destroyed: pops still waiting end without a value
        R.cases++;
        if (err.empty()) {
            size_t want = std::min(pushed.size(), (size_t)pops);
            if (got.size() != want) err = "pops received " + std::to_string(got.size()) + " items, expected " + std::to_string(want);
            for (size_t k = 0; k < got.size() && k < pushed.size() && err.empty(); k++)
                if (got[k] != pushed[k]) err = "pop #" + std::to_string(k) + " received '" + got[k].substr(0, 20) + "...' (" + std::to_string(got[k].size()) + " chars) instead of the pushed text (" + std::to_string(pushed[k].size()) + " chars)";
            if (err.empty() && done != pops) err = "a pop neither received an item nor was cancelled by the destruction of the queue";
        }
        if (!err.empty()) { R.violation(std::string("monitor:delivery|") + scen, err, vf::jobj().kv("case", (unsigned long long)cn).kv("seed", (unsigned long long)o.seed).kv("ops", desc).str()); continue; }
        R.nontrivial_cases++;
        R.sig(desc);
        if (R.samples.size() < 2) R.sample(vf::jobj().kv("ops", desc).kv("result", "every pop received exactly the pushed text; lvalue arguments untouched").str());
    }
}


// ---------------------------------------------------------------------------------------------
// A consumer written WITHOUT coroutines (call_fn_future_awaiter, the documented replacement of a coroutine for simple use): its
// completion handler runs inline where the pop is completed - inside push() - takes the item, asks the queue about its size and
// immediately re-arms the next pop on the same queue. Re-entering the queue from a completion is ordinary use (completions run outside
// the queue's lock); every pushed item must arrive exactly once and in order, unblock_pop must fail exactly the waiting pop, and
// destroying the queue must end the waiting pop with await_canceled_exception. A queue that completes pops while holding its lock
// blocks here forever (the watchdog reports the hang).
template <typename Q> struct qcb_state {
    Q *q = nullptr;
    std::vector<uint64_t> got; std::vector<size_t> sizes; int unblocked = 0, canceled = 0, other = 0;
    std::function<void()> next; // asks the queue for the next item (re-arms the awaiter)
    cocls::suspend_point<void> on_item(cocls::future<qitem> &f) noexcept {
        try { qitem &v = f.value(); got.push_back(v.ok() ? v.id : 0); }
        catch (const vf::test_exc &) { unblocked++; }
        catch (const cocls::await_canceled_exception &) { canceled++; return {}; }
        catch (...) { other++; return {}; }
        sizes.push_back(q->size());             // re-enters the queue (locks it)
        next();
        return {};
    }
};
template <typename Q> struct qcb_consumer : qcb_state<Q> {
    cocls::call_fn_future_awaiter<&qcb_state<Q>::on_item> awt{*this};
    qcb_consumer() { this->next = [this] { awt << [this] { return this->q->pop(); }; }; }
    void start() { this->next(); }
};
template <bool Limited>
void queue_callback_consumer(const vf::opts &o, vf::report &R, uint64_t cases) {
    using Q = std::conditional_t<Limited, cocls::limited_queue<qitem>, cocls::queue<qitem>>;
    vf::rng master(vf::mix(o.seed, Limited ? 0x10cb : 0x09cb));
    const char *scen = Limited ? "lqueue_callback_consumer" : "queue_callback_consumer";
    for (uint64_t cn = 0; cn < cases && R.nviol() < 5; cn++) {
        vf::rng r(master.next());
        vf::set_crash_ctx(R.prop.c_str(), scen, o.seed, cn);
        std::string err, desc;
        long live0 = tracked::live.load();
        auto C = std::make_unique<qcb_consumer<Q>>();
        std::vector<uint64_t> pushed; int unblocks = 0;
        std::vector<std::unique_ptr<cocls::future<void>>> pfuts; // bounded queue: push futures (parked pushes complete when the consumer pops)
        {
            std::unique_ptr<Q> q;
            if constexpr (Limited) q = std::make_unique<Q>(2 + r.below(4)); else q = std::make_unique<Q>();
            C->q = q.get();
            bool start_first = r.chance(2, 3);
            if (start_first) { C->start(); desc += "consumer-armed "; }
            int len = 2 + (int)r.below(10);
            for (int i = 0; i < len; i++) {
                uint32_t x = r.below(10);
                if (x < 7) { uint64_t id = 500 + (uint64_t)i; pushed.push_back(id); desc += "push "; if constexpr (Limited) { pfuts.push_back(std::unique_ptr<cocls::future<void>>(new cocls::future<void>(q->push(id)))); } else q->push(id); if (!start_first && pushed.size() >= 3) { start_first = true; C->start(); desc += "consumer-armed "; } }
                else if (!Limited && x < 9 && start_first && C->got.size() == pushed.size()) { if constexpr (!Limited) { desc += "unblock_pop "; unblocks++; bool ok = q->unblock_pop(vf::make_exc(3)); if (!ok) err = "unblock_pop reported that no pop was waiting although the consumer had re-armed"; } }
                else { desc += "size "; (void)q->size(); }
            }
            if (!start_first) { C->start(); desc += "consumer-armed "; }
        } // queue destroyed while the consumer's pop is waiting
        R.cases++;
        if (err.empty() && C->got != pushed) err = "consumer received " + std::to_string(C->got.size()) + " items that differ from the " + std::to_string(pushed.size()) + " pushed ones (order / loss / duplicate)";
        if (err.empty() && C->unblocked != unblocks) err = "unblock_pop failed " + std::to_string(C->unblocked) + " pops, called " + std::to_string(unblocks) + " times";
        if (err.empty() && C->canceled != 1) err = "the waiting pop was ended " + std::to_string(C->canceled) + " times by the destruction of the queue";
        if (err.empty() && C->other) err = "a pop ended with an unexpected exception";
        for (auto &pf : pfuts) if (err.empty() && !pf->ready()) { err = "a push is still pending although the consumer took every item"; for (auto &x : pfuts) (void)x.release(); break; }
        pfuts.clear();
        C.reset();
        if (err.empty() && tracked::live.load() != live0) err = "items leaked or destroyed twice";
        if (!err.empty()) { R.violation(std::string("monitor:delivery|") + scen, err, vf::jobj().kv("case", (unsigned long long)cn).kv("seed", (unsigned long long)o.seed).kv("ops", desc).str()); continue; }
        R.nontrivial_cases++; R.sig(desc);
    }
}


// ---------------------------------------------------------------------------------------------
// The documented single-consumer configuration: queue<T, std_queue, single_item_queue> parks at most ONE waiting pop. A second pop while
// one is waiting is refused with an exception thrown out of pop() - and that must be all: the queue stays usable, the waiting pop is
// served by the next push, later items are delivered once and in order, size()/empty() keep answering (a queue left locked by the
// refused call blocks the very next operation: hang verdict).
using q1_t = cocls::queue<int, cocls::primitives::std_queue, cocls::primitives::single_item_queue>;
inline cocls::async<void> q1_popper(q1_t &q, std::vector<int> &got, int &refused, int &canceled) {
    try { cocls::future<int> f = q.pop(); int v = co_await f; got.push_back(v); }
    catch (const std::runtime_error &) { refused++; }
    catch (const cocls::await_canceled_exception &) { canceled++; }
}
inline void queue_single_consumer(const vf::opts &o, vf::report &R, uint64_t cases) {
    vf::rng master(vf::mix(o.seed, 0x0951));
    for (uint64_t cn = 0; cn < cases && R.nviol() < 5; cn++) {
        vf::rng r(master.next());
        vf::set_crash_ctx(R.prop.c_str(), "queue_single_consumer", o.seed, cn);
        std::string err, desc;
        std::vector<int> got, pushed; int refused = 0, canceled = 0, want_refused = 0;
        int stored = 0; bool waiting = false; size_t delivered = 0;
        {
            auto q = std::make_unique<q1_t>();
            int len = 3 + (int)r.below(14);
            for (int i = 0; i < len && err.empty(); i++) {
                uint32_t x = r.below(10);
                if (x < 5) { desc += "pop "; if (stored > 0) { stored--; delivered++; } else if (waiting) want_refused++; else waiting = true; q1_popper(*q, got, refused, canceled).detach(); }
                else if (x < 8) { desc += "push "; pushed.push_back(100 + i); if (waiting) { waiting = false; delivered++; } else stored++; q->push(100 + i); }
                else { desc += "size "; if (q->size() != (size_t)stored) err = "size() is " + std::to_string(q->size()) + ", expected " + std::to_string(stored); if (q->empty() != (stored == 0) && err.empty()) err = "empty() disagrees"; }
                if (err.empty() && (got.size() != delivered || refused != want_refused)) err = "after '" + desc.substr(desc.size() > 30 ? desc.size() - 30 : 0) + "': " + std::to_string(got.size()) + " items delivered (expected " + std::to_string(delivered) + "), " + std::to_string(refused) + " pops refused (expected " + std::to_string(want_refused) + ")";
            }
        }
        R.cases++;
        if (err.empty()) for (size_t k = 0; k < got.size(); k++) if (got[k] != pushed[k]) { err = "items delivered out of order / duplicated"; break; }
        if (err.empty() && canceled != (waiting ? 1 : 0)) err = "the waiting pop was not ended exactly once by the destruction of the queue";
        if (!err.empty()) { R.violation("monitor:delivery|queue_single_consumer", err, vf::jobj().kv("case", (unsigned long long)cn).kv("seed", (unsigned long long)o.seed).kv("ops", desc).str()); continue; }
        if (want_refused) R.cls("histories_with_a_refused_second_pop");
        R.nontrivial_cases++; R.sig(desc);
    }
}


// ---------------------------------------------------------------------------------------------
// Bounded queue over a user-supplied item container of FIXED capacity equal to the limit (the Queue template parameter; a ring buffer
// without allocation). "A push completes immediately while fewer than the limit items are waiting, otherwise it stays pending - holding
// its item": the item container is never asked to hold more than `limit` items, items come out in push order, blocked pushes complete in
// arrival order one per pop.
inline std::atomic<int> g_ring_overflow{0};
template <std::size_t N> struct lq_ring {
    template <typename X> class type {
    public:
        template <typename... A> void emplace(A &&...a) {
            if (_size == N) { g_ring_overflow.fetch_add(1, std::memory_order_relaxed); _slot[_head].reset(); _head = (_head + 1) % N; --_size; } // what a ring does: the oldest item is overwritten
            _slot[(_head + _size) % N].emplace(std::forward<A>(a)...); ++_size;
        }
        void push(X &&x) { emplace(std::move(x)); }
        void push(const X &x) { emplace(x); }
        X &front() { return *_slot[_head]; }
        const X &front() const { return *_slot[_head]; }
        void pop() { _slot[_head].reset(); _head = (_head + 1) % N; --_size; }
        std::size_t size() const { return _size; }
        bool empty() const { return _size == 0; }
    protected:
        std::array<std::optional<X>, N> _slot; std::size_t _head = 0, _size = 0;
    };
};
template <std::size_t L> std::string lq_ring_case(vf::rng &r, std::string &desc) {
    using Q = cocls::limited_queue<std::string, lq_ring<L>::template type>;
    std::string err;
    int ov0 = g_ring_overflow.load();
    std::deque<std::string> model; std::vector<std::string> got; int done = 0, pops = 0; size_t next_item = 0;
    std::vector<std::unique_ptr<cocls::future<void>>> pf;
    {
        auto q = std::make_unique<Q>(L);
        int len = 4 + (int)r.below(20);
        desc = "ring container, limit " + std::to_string(L) + ": ";
        for (int i = 0; i < len && err.empty(); i++) {
            bool do_push = r.chance(3, 5) && model.size() < L + 3;
            if (do_push) { std::string v = "item-number-" + std::to_string(1000000 + next_item++) + "-payload long enough for the heap"; model.push_back(v); pf.push_back(std::unique_ptr<cocls::future<void>>(new cocls::future<void>(q->push(v)))); desc += "push "; }
            else if (!model.empty()) { pops++; qs_popper(*q, got, done).detach(); desc += "pop "; }
            if (g_ring_overflow.load() != ov0) err = "the item container (capacity = limit) was asked to hold more than `limit` items";
        }
        while (err.empty() && pops < (int)model.size()) { pops++; qs_popper(*q, got, done).detach(); }
        if (err.empty() && g_ring_overflow.load() != ov0) err = "the item container (capacity = limit) was asked to hold more than `limit` items";
        for (auto &f : pf) if (err.empty() && !f->ready()) err = "a push is still pending although every item was popped";
        if (!err.empty()) for (auto &f : pf) (void)f.release();
    }
    if (err.empty()) {
        if (got.size() != model.size()) err = "popped " + std::to_string(got.size()) + " items, pushed " + std::to_string(model.size());
        for (size_t k = 0; k < got.size() && err.empty(); k++) if (got[k] != model[k]) err = "pop #" + std::to_string(k) + " delivered '" + got[k].substr(0, 22) + "', expected '" + model[k].substr(0, 22) + "'";
    }
    return err;
}
inline void lqueue_ring_container(const vf::opts &o, vf::report &R, uint64_t cases) {
    vf::rng master(vf::mix(o.seed, 0x10b1));
    for (uint64_t cn = 0; cn < cases && R.nviol() < 5; cn++) {
        vf::rng r(master.next());
        vf::set_crash_ctx(R.prop.c_str(), "lqueue_ring_container", o.seed, cn);
        std::string desc, err;
        switch (cn % 4) { case 0: err = lq_ring_case<1>(r, desc); break; case 1: err = lq_ring_case<2>(r, desc); break; case 2: err = lq_ring_case<3>(r, desc); break; default: err = lq_ring_case<4>(r, desc); break; }
        R.cases++;
        if (!err.empty()) { R.violation("monitor:delivery|lqueue_ring_container", err, vf::jobj().kv("case", (unsigned long long)cn).kv("seed", (unsigned long long)o.seed).kv("ops", desc).str()); continue; }
        R.nontrivial_cases++; R.sig(desc);
    }
}

} // namespace scn
