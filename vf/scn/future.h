// scenarios for future/promise (C01, C02; also the core of the C03 TSan workload)
#pragma once
#include <vf/team.h>
#include <vf/payload.h>
#include <cocls/future.h>
#include <cocls/async.h>
#include "queue.h" // outcome
#include <optional>
#include <memory>

namespace scn {
using namespace cocls::verif;
using vf::tracked_mo;

enum { FA_VALUE = 0, FA_EXC = 1, FA_DROP = 2, FA_NONE = 3 };
inline const char *fa_name(int a) { static const char *n[] = {"value", "exception", "drop", "none"}; return n[a]; }
enum { FW_CORO = 0, FW_HASVALUE = 1, FW_WAIT = 2, FW_SYNC = 3, FW_CALLBACK = 4, FW_POLL = 5, FW_FORCE_SYNC = 6, FW_BARE = 7, FW_NKINDS = 8 };
inline const char *fw_name(int a) { static const char *n[] = {"co_await", "co_await has_value", "wait()", "sync()+value()", "callback awaiter", "poll ready()", "force_sync()+value()", "co_await in a foreign (bare) coroutine"}; return n[a]; }

template <typename T> const char *ftype_name() {
    if constexpr (std::is_void_v<T>) return "void";
    else if constexpr (std::is_reference_v<T>) return "int&";
    else if constexpr (std::is_same_v<T, int>) return "int";
    else if constexpr (std::is_same_v<T, tracked_mo>) return "move-only";
    else if constexpr (std::is_same_v<T, vf::tracked_thr>) return "counted(throwing ctor)";
    else return "counted";
}
constexpr uint64_t BADVAL = 0xBADBADBAD;

// an exception type of the USER that derives from the library's await_canceled_exception (e.g. a cancellation reason with a payload): when a
// body or a resolver delivers it, the reader must get that object - not the payload-free "no value" state
struct f_cancel_reason : cocls::await_canceled_exception { int code; explicit f_cancel_reason(int c) : code(c) {} };
template <typename T> outcome read_future(cocls::future<T> &f, int *targets, int ntargets);
// the same through the const overload of value() (a separate implementation in the library): must tell the same story
template <typename T> outcome read_future_const(const cocls::future<T> &f, int *targets, int ntargets) {
    outcome o;
    try {
        if constexpr (std::is_void_v<T>) { f.value(); o.state = PS_VALUE; o.val = 0; }
        else if constexpr (std::is_reference_v<T>) {
            const int &r = f.value();
            o.state = PS_VALUE; o.val = BADVAL;
            for (int i = 0; i < ntargets; i++) if (&r == &targets[i]) o.val = (uint64_t)i;
        } else if constexpr (std::is_same_v<T, int>) { o.val = (uint64_t)f.value(); o.state = PS_VALUE; }
        else { const auto &v = f.value(); o.state = PS_VALUE; o.val = v.ok() ? v.id : BADVAL; }
    } catch (const vf::test_exc &e) { o.state = PS_EXC; o.code = e.code; }
    catch (const f_cancel_reason &e) { o.state = PS_EXC; o.code = e.code; }
    catch (const cocls::await_canceled_exception &) { o.state = PS_CANCELED; }
    catch (const cocls::value_not_ready_exception &) { o.state = PS_PENDING; }
    catch (...) { o.state = PS_EXC; o.code = -99; }
    return o;
}
// reads the result of a resolved future without blocking; targets: referents for future<int&>
template <typename T> outcome read_future(cocls::future<T> &f, int *targets, int ntargets) {
    outcome o;
    try {
        if constexpr (std::is_void_v<T>) { f.value(); o.state = PS_VALUE; o.val = 0; }
        else if constexpr (std::is_reference_v<T>) {
            int &r = f.value();
            o.state = PS_VALUE; o.val = BADVAL;
            for (int i = 0; i < ntargets; i++) if (&r == &targets[i]) o.val = (uint64_t)i; // identity, not equality
        } else if constexpr (std::is_same_v<T, int>) { o.val = (uint64_t)f.value(); o.state = PS_VALUE; }
        else { auto &v = f.value(); o.state = PS_VALUE; o.val = v.ok() ? v.id : BADVAL; }
    } catch (const vf::test_exc &e) { o.state = PS_EXC; o.code = e.code; }
    catch (const f_cancel_reason &e) { o.state = PS_EXC; o.code = e.code; }
    catch (const cocls::await_canceled_exception &) { o.state = PS_CANCELED; }
    catch (const cocls::value_not_ready_exception &) { o.state = PS_PENDING; }
    catch (...) { o.state = PS_EXC; o.code = -99; }
    return o;
}

struct f_wrec {
    std::atomic<int> released{0};
    outcome o;
    bool ready_at_release = true;
    int hv = -1; // has_value result (FW_HASVALUE)
};

template <typename T> struct f_cb_awaiter : cocls::awaiter {
    cocls::future<T> *f = nullptr; f_wrec *rec = nullptr; int *targets = nullptr; int ntargets = 0;
    f_cb_awaiter() { set_resume_fn(&fire, this); }
    void on_release() {
        rec->ready_at_release = f->ready();
        rec->o = read_future(*f, targets, ntargets);
        rec->released.fetch_add(1, std::memory_order_relaxed);
    }
    static cocls::suspend_point<void> fire(cocls::awaiter *, void *ctx) noexcept { static_cast<f_cb_awaiter *>(ctx)->on_release(); return {}; }
};

// A "bystander": a coroutine of the waiter's own thread that the waiter made ready (discarded suspend point) just BEFORE it awaits the
// contended future, so that it sits in that thread's ready queue while the registration on the contended future races with the
// resolver. It is a waiter too (of a private, already resolved future / of its own start): it must run exactly once.
struct f_bystander {
    cocls::future<int> g; std::optional<cocls::promise<int>> gp;
    int mode = 0; // 0 none, 1 spawned child not yet started, 2 child parked on g and released by the waiter, 3 both
    std::atomic<int> ran{0};
    bool queued_at_registration = false;
};
inline cocls::async<void> f_by_child(f_bystander &B) { B.ran.fetch_add(1, std::memory_order_relaxed); co_return; }
inline cocls::async<void> f_by_parked(f_bystander &B) { int v = co_await B.g; (void)v; B.ran.fetch_add(1, std::memory_order_relaxed); }
// runs INLINE in the waiter coroutine (coroutine mode), directly in front of the co_await on the contended future
#define F_BY_PREPARE(B) \
    if ((B).mode & 2) { \
        (B).gp.emplace((B).g.get_promise()); \
        co_await f_by_parked(B).detach();   /* runs the child until it parks on g */ \
        (*(B).gp)(1);                       /* suspend point discarded: the child is ready and queued behind the running coroutine */ \
    } \
    if ((B).mode & 1) f_by_child(B).detach();   /* discarded: queued, not started */ \
    (B).queued_at_registration = (B).mode && (B).ran.load(std::memory_order_relaxed) == 0;
// a coroutine type that is NOT the library's (what another coroutine library's task looks like to cocls): resumed by plain
// handle.resume(), no ready queue of its own; the frame is destroyed by the harness after the round
struct f_bare_task {
    struct promise_type {
        f_bare_task get_return_object() { return {std::coroutine_handle<promise_type>::from_promise(*this)}; }
        std::suspend_always initial_suspend() noexcept { return {}; }
        std::suspend_always final_suspend() noexcept { return {}; }
        void return_void() {}
        void unhandled_exception() { std::terminate(); }
    };
    std::coroutine_handle<promise_type> h;
};
template <typename T> struct fut_round {
    f_bystander by[3];
    std::coroutine_handle<> bare[3] = {};
    ~fut_round() { for (auto &b : bare) if (b && b.done()) b.destroy(); }
    std::unique_ptr<cocls::future<T>> f;
    std::optional<cocls::promise<T>> prom;
    int ncont = 0, nwait = 0;
    int action[4] = {}, wkind[3] = {};
    std::atomic<int> body_runs[4] = {}; // entry "async::start(promise)": how often the competing coroutine's body ran (1 if it won, 0 if not)
    int entry[4] = {}; // which of the equivalent promise entry points the contender uses (operator() / set_value / set_exception / unhandled_exception)
    std::atomic<int> res[4];
    bool consumed[4] = {};
    std::atomic<int> done{0};
    int target[4] = {10, 11, 12, 13};
    f_wrec w[3];
    f_cb_awaiter<T> cb[3];
    std::atomic<int> destroyed_by{-1};
    fut_round() { for (auto &r : res) r = -1; }
};

template <typename T> cocls::async<void> f_w_coro(fut_round<T> &X, int wi) {
    f_wrec &rec = X.w[wi];
    F_BY_PREPARE(X.by[wi])
    try {
        if constexpr (std::is_void_v<T>) { co_await *X.f; rec.o.state = PS_VALUE; }
        else {
            auto &v = co_await *X.f;
            (void)v;
            rec.o = read_future(*X.f, X.target, 4);
        }
    } catch (const vf::test_exc &e) { rec.o.state = PS_EXC; rec.o.code = e.code; }
    catch (const cocls::await_canceled_exception &) { rec.o.state = PS_CANCELED; }
    rec.ready_at_release = X.f->ready();
    rec.released.fetch_add(1, std::memory_order_relaxed);
}
template <typename T> f_bare_task f_w_bare(fut_round<T> &X, int wi) {
    f_wrec &rec = X.w[wi];
    try {
        if constexpr (std::is_void_v<T>) { co_await *X.f; rec.o.state = PS_VALUE; }
        else {
            auto &v = co_await *X.f;
            (void)v;
            rec.o = read_future(*X.f, X.target, 4);
        }
    } catch (const vf::test_exc &e) { rec.o.state = PS_EXC; rec.o.code = e.code; }
    catch (const cocls::await_canceled_exception &) { rec.o.state = PS_CANCELED; }
    rec.ready_at_release = X.f->ready();
    rec.released.fetch_add(1, std::memory_order_relaxed);
}
template <typename T> cocls::async<void> f_w_hasvalue(fut_round<T> &X, int wi) {
    f_wrec &rec = X.w[wi];
    F_BY_PREPARE(X.by[wi])
    bool hv = co_await X.f->has_value();
    rec.hv = hv ? 1 : 0;
    rec.ready_at_release = X.f->ready();
    rec.o = read_future(*X.f, X.target, 4);
    rec.released.fetch_add(1, std::memory_order_relaxed);
}

inline cocls::async<int> f_contender_coro(int id, std::atomic<int> *runs) { runs->fetch_add(1, std::memory_order_relaxed); co_return id; }
template <typename T> void f_contender(fut_round<T> &X, int c) {
    cocls::promise<T> &p = *X.prom;
    uint64_t id = 100 + (uint64_t)c;
    int r = -1;
    switch (X.action[c]) {
    case FA_VALUE:
        if (X.entry[c] == 0) {
            if constexpr (std::is_void_v<T>) r = (bool)p();
            else if constexpr (std::is_reference_v<T>) r = (bool)p(X.target[c]);
            else if constexpr (std::is_same_v<T, int>) r = (bool)p((int)id);
            else if constexpr (std::is_same_v<T, tracked_mo>) { tracked_mo a(id); r = (bool)p(std::move(a)); X.consumed[c] = a.moved(); }
            else r = (bool)p(id);
        } else if (X.entry[c] == 2 && std::is_same_v<T, int>) {
            // a coroutine started INTO the contended promise (async::start(promise&)): it may only run if it wins the claim
            if constexpr (std::is_same_v<T, int>) { cocls::async<int> co = f_contender_coro((int)id, &X.body_runs[c]); r = (bool)co.start(p); }
        } else { // the named entry point
            if constexpr (std::is_void_v<T>) r = (bool)p.set_value();
            else if constexpr (std::is_reference_v<T>) r = (bool)p.set_value(X.target[c]);
            else if constexpr (std::is_same_v<T, int>) r = (bool)p.set_value((int)id);
            else if constexpr (std::is_same_v<T, tracked_mo>) { tracked_mo a(id); r = (bool)p.set_value(std::move(a)); X.consumed[c] = a.moved(); }
            else r = (bool)p.set_value(id);
        }
        break;
    case FA_EXC:
        if (X.entry[c] == 0) r = (bool)p(vf::make_exc((int)id));
        else if (X.entry[c] == 1) r = (bool)p.set_exception(vf::make_exc((int)id));
        else { try { throw vf::test_exc{(int)id}; } catch (...) { r = p.unhandled_exception(); } } // "capture current exception"
        break;
    case FA_DROP: r = X.entry[c] == 0 ? (bool)p(cocls::drop) : (bool)p.set_value(cocls::drop); break;
    default: break;
    }
    X.res[c].store(r, std::memory_order_relaxed);
    // closed round: whoever finishes last destroys the promise object (destruction resolves when nobody won)
    if (X.done.fetch_add(1, std::memory_order_acq_rel) + 1 == X.ncont) { X.destroyed_by.store(c, std::memory_order_relaxed); X.prom.reset(); }
}
template <typename T> void f_waiter(fut_round<T> &X, int wi) {
    f_wrec &rec = X.w[wi];
    switch (X.wkind[wi]) {
    case FW_CORO: f_w_coro<T>(X, wi).detach(); break;
    case FW_HASVALUE: f_w_hasvalue<T>(X, wi).detach(); break;
    case FW_BARE: { f_bare_task t = f_w_bare<T>(X, wi); X.bare[wi] = t.h; t.h.resume(); break; } // runs until it parks on the future (or to its end)
    case FW_WAIT:
        try {
            if constexpr (std::is_void_v<T>) { X.f->wait(); rec.o.state = PS_VALUE; }
            else { auto &v = X.f->wait(); (void)v; rec.o = read_future(*X.f, X.target, 4); }
        } catch (const vf::test_exc &e) { rec.o.state = PS_EXC; rec.o.code = e.code; }
        catch (const cocls::await_canceled_exception &) { rec.o.state = PS_CANCELED; }
        rec.ready_at_release = X.f->ready();
        rec.released.fetch_add(1, std::memory_order_relaxed);
        break;
    case FW_FORCE_SYNC: // the blocking form that is also allowed inside coroutines (a separate implementation in the library)
        X.f->force_sync();
        rec.ready_at_release = X.f->ready();
        rec.o = read_future(*X.f, X.target, 4);
        rec.released.fetch_add(1, std::memory_order_relaxed);
        break;
    case FW_SYNC:
        X.f->sync();
        rec.ready_at_release = X.f->ready();
        rec.o = read_future(*X.f, X.target, 4);
        rec.released.fetch_add(1, std::memory_order_relaxed);
        break;
    case FW_CALLBACK: {
        f_cb_awaiter<T> &cb = X.cb[wi];
        cb.f = X.f.get(); cb.rec = &rec; cb.targets = X.target; cb.ntargets = 4;
        if (!X.f->operator co_await().subscribe(&cb)) cb.on_release(); // already resolved: no registration, caller continues itself
        break;
    }
    case FW_POLL:
        while (!X.f->ready()) vf::cpu_relax();
        rec.o = read_future(*X.f, X.target, 4);
        rec.released.fetch_add(1, std::memory_order_relaxed);
        break;
    }
}

enum { FUT_C01 = 1, FUT_C02 = 2, FUT_ALL = 3 };
inline std::pair<const int *, int> future_sites_resolver() {
    static const int sites[] = {prom_claim_pre, prom_claim_post, fut_set_post, prom_dtor, aw_chain_pre, aw_chain_post, aw_chain_node, aw_chain_node_done,
                                sync_wake_mid, fin_pre_resolve, fin_pre_destroy, fin_post_destroy};
    return {sites, (int)(sizeof sites / sizeof sites[0])};
}
inline std::pair<const int *, int> future_sites_waiter() {
    static const int sites[] = {coaw_suspend, aw_subchk_pre, aw_subchk_retry, aw_subchk_post, sync_pre_sub, sync_pre_wait, coaw_suspend, aw_subchk_post, aw_subchk_pre};
    return {sites, (int)(sizeof sites / sizeof sites[0])};
}

// one round for value type T; returns false when the state became unusable
template <typename T>
void future_round(const vf::opts &o, vf::report &R, vf::team &T_, uint64_t rn, uint64_t rseed, int groups) {
    vf::rng r(rseed);
    long live0 = tracked::live.load(), bad0 = tracked::bad.load();
    auto Xp = std::make_unique<fut_round<T>>();
    fut_round<T> &X = *Xp;
    X.f = std::make_unique<cocls::future<T>>();
    X.prom.emplace(X.f->get_promise());
    int maxc = std::min(4, T_.n - 1);
    X.ncont = 1 + (int)r.below((uint32_t)maxc);
    if (r.chance(2, 3) && maxc >= 2 && X.ncont < 2) X.ncont = 2;
    X.nwait = (int)r.below((uint32_t)std::min(3, T_.n - X.ncont) + 1);
    bool abstain_all = r.chance(1, 12);
    std::string desc = std::string(ftype_name<T>()) + " C:";
    for (int c = 0; c < X.ncont; c++) {
        uint32_t x = r.below(10);
        X.action[c] = abstain_all ? FA_NONE : (x < 5 ? FA_VALUE : x < 7 ? FA_EXC : x < 9 ? FA_DROP : FA_NONE);
        X.entry[c] = (int)r.below(3);
        desc += std::string(fa_name(X.action[c])) + (X.entry[c] == 0 ? "" : X.action[c] == FA_EXC ? (X.entry[c] == 1 ? "[set_exception]" : "[unhandled_exception]") : X.action[c] == FA_NONE ? "" : (X.entry[c] == 2 && std::is_same_v<T, int>) ? "[async::start(promise)]" : "[set_value]") + ",";
    }
    desc += " W:";
    for (int w = 0; w < X.nwait; w++) {
        X.wkind[w] = (int)r.below(FW_NKINDS); desc += std::string(fw_name(X.wkind[w]));
        if ((X.wkind[w] == FW_CORO || X.wkind[w] == FW_HASVALUE) && r.chance(1, 3)) { X.by[w].mode = 1 + (int)r.below(3); desc += "+bystander" + std::to_string(X.by[w].mode); }
        desc += ",";
    }
    std::string plan = T_.plan_by([&](int tid) { return tid < X.ncont ? future_sites_resolver() : future_sites_waiter(); }, r, X.ncont + X.nwait);
    vf::set_crash_ctx(R.prop.c_str(), "future_mt", o.seed, rn, (desc + " ; " + plan).c_str());
    T_.round([&](int tid) {
        vf::start_offset(rseed, tid);
        if (tid < X.ncont) f_contender<T>(X, tid);
        else if (tid < X.ncont + X.nwait) f_waiter<T>(X, tid - X.ncont);
    });
    R.cases++;
    // ---------------- oracles
    int winners = 0, winner = -1, callers = 0;
    for (int c = 0; c < X.ncont; c++) {
        if (X.action[c] != FA_NONE) callers++;
        if (X.res[c].load() == 1) { winners++; winner = c; }
    }
    outcome expect;
    if (winner >= 0 && X.action[winner] == FA_VALUE) { expect.state = PS_VALUE; expect.val = std::is_void_v<T> ? 0 : (std::is_reference_v<T> ? (uint64_t)winner : 100 + (uint64_t)winner); }
    else if (winner >= 0 && X.action[winner] == FA_EXC) { expect.state = PS_EXC; expect.code = 100 + winner; }
    else expect.state = PS_CANCELED;
    auto witness = [&]() {
        std::vector<std::string> cs, ws;
        for (int c = 0; c < X.ncont; c++) cs.push_back(vf::jobj().kv("action", fa_name(X.action[c])).kv("reported", X.res[c].load()).kv("arg_consumed", X.consumed[c]).str());
        for (int w = 0; w < X.nwait; w++) ws.push_back(vf::jobj().kv("kind", fw_name(X.wkind[w])).kv("released", X.w[w].released.load()).kv("saw", X.w[w].o.str()).kv("ready_at_release", X.w[w].ready_at_release).kv("has_value", X.w[w].hv).str());
        return vf::jobj().kv("scenario", "future_mt").kv("seed", (unsigned long long)o.seed).kv("round", (unsigned long long)rn).kv("type", ftype_name<T>())
            .raw("contenders", vf::jarr(cs)).raw("waiters", vf::jarr(ws)).kv("expected", expect.str()).kv("promise_destroyed_by", X.destroyed_by.load()).kv("stall_plan", plan).str();
    };
    bool corrupt = false;
    std::string e1, e2;
    if (callers > 0 && winners != 1) e1 = std::to_string(winners) + " calls reported success among " + std::to_string(callers) + " competing resolutions";
    if (callers == 0 && winners != 0) e1 = "a call reported success although nobody called";
    for (int c = 0; c < X.ncont && e1.empty(); c++) {
        int want = X.action[c] == FA_NONE ? -1 : (c == winner ? 1 : 0);
        if (X.res[c].load() != want) e1 = "contender result inconsistent";
        if (X.consumed[c] && X.res[c].load() == 0) e1 = "a losing call consumed its move-only argument";
        if (e1.empty() && X.body_runs[c].load() != (X.action[c] == FA_VALUE && X.entry[c] == 2 && std::is_same_v<T, int> && X.res[c].load() == 1 ? 1 : 0)) e1 = "a coroutine started into the contended promise ran " + std::to_string(X.body_runs[c].load()) + " times although its start reported " + (X.res[c].load() == 1 ? "success" : "failure");
    }
    if (!X.f->ready()) { if (e1.empty()) e1 = "future still pending after every call returned and the promise was destroyed"; corrupt = true; }
    if (!corrupt && e1.empty()) {
        outcome o1 = read_future(*X.f, X.target, 4), o2 = read_future(*X.f, X.target, 4);
        if (!(o1 == expect)) e1 = "future holds " + o1.str() + " but the winner supplied " + expect.str();
        else if (!(o1 == o2)) e1 = "result changed between two reads";
        else { outcome o3 = read_future_const<T>(*X.f, X.target, 4); if (!(o3 == o1)) e1 = "value() through a const reference reports " + o3.str() + " where the non-const read reports " + o1.str(); }
        if constexpr (std::is_same_v<T, tracked> || std::is_same_v<T, tracked_mo>) {
            long want_live = live0 + (expect.state == PS_VALUE ? 1 : 0);
            if (e1.empty() && tracked::live.load() != want_live) e1 = "payload instances alive: " + std::to_string(tracked::live.load() - live0) + ", expected " + std::to_string(want_live - live0);
        }
    }
    for (int w = 0; w < X.nwait; w++) {
        f_wrec &rec = X.w[w];
        int rel = rec.released.load();
        if (rel != 1) { if (e2.empty()) e2 = std::string(fw_name(X.wkind[w])) + " waiter released " + std::to_string(rel) + " times"; corrupt = corrupt || rel == 0; continue; }
        if (!rec.ready_at_release && e2.empty()) e2 = std::string(fw_name(X.wkind[w])) + " waiter ran while ready() was false (released early)";
        if (!(rec.o == expect) && e2.empty()) e2 = std::string(fw_name(X.wkind[w])) + " waiter observed " + rec.o.str() + " instead of " + expect.str();
        if (X.wkind[w] == FW_HASVALUE && e2.empty() && rec.hv != (expect.state == PS_CANCELED ? 0 : 1)) e2 = "co_await has_value() returned " + std::to_string(rec.hv);
    }
    for (int w = 0; w < X.nwait; w++) if (X.by[w].mode && e2.empty()) {
        int want = (X.by[w].mode & 1) + ((X.by[w].mode >> 1) & 1), got = X.by[w].ran.load();
        if (got != want) { e2 = "coroutines the waiter had made ready before it awaited the future ran " + std::to_string(got) + " times, expected " + std::to_string(want) + " (a ready coroutine of the waiter's thread was lost or duplicated while the waiter registered)"; corrupt = corrupt || got < want; }
    }
    if (!e1.empty() && (groups & FUT_C01)) R.violation("monitor:resolution|future_mt", e1, witness());
    if (!e2.empty() && (groups & FUT_C02)) R.violation("monitor:wakeup|future_mt", e2, witness());
    if (!e1.empty() && !(groups & FUT_C01) && (groups & FUT_C02) && e2.empty()) { /* other group's business */ }
    if (corrupt || !e1.empty() || !e2.empty()) { (void)X.f.release(); (void)Xp.release(); return; }
    X.f.reset();
    if constexpr (std::is_same_v<T, tracked> || std::is_same_v<T, tracked_mo>) {
        if (tracked::live.load() != live0 || tracked::bad.load() != bad0) {
            if (groups & FUT_C01) R.violation("monitor:payload_balance|future_mt", "payload constructed/destroyed counts differ after the future is gone", witness());
            return;
        }
    }
    // ---------------- classification
    std::string sig = std::string(ftype_name<T>()) + " ";
    { std::vector<std::string> acts; for (int c = 0; c < X.ncont; c++) acts.push_back(fa_name(X.action[c])); std::sort(acts.begin(), acts.end()); for (auto &a : acts) sig += a.substr(0, 1); }
    sig += winner >= 0 ? std::string(">") + fa_name(X.action[winner])[0] : ">dtor";
    int parked = 0, lostrace = 0, early_ready = 0;
    for (int w = 0; w < X.nwait; w++) {
        std::vector<int> ev = T_.events(X.ncont + w);
        int cls = 0; // 0 ready before subscribing, 1 parked, 2 lost CAS to ready
        for (int e : ev) { if (e == ev_subchk_pushed) { cls = 1; break; } if (e == ev_subchk_ready) { cls = 2; break; } }
        if (cls == 1) parked++; else if (cls == 2) lostrace++; else early_ready++;
        sig += " " + std::to_string(X.wkind[w]) + "/" + std::to_string(cls);
    }
    int chain = winner >= 0 ? 0 : 0;
    { int who = winner >= 0 ? winner : X.destroyed_by.load(); if (who >= 0) { for (int e : T_.events(who)) if (e == ev_chain_node) chain++; } }
    sig += " chain" + std::to_string(chain);
    bool nontrivial = callers >= 2 || X.nwait >= 1;
    if (nontrivial) R.nontrivial_cases++;
    R.sig(sig, nontrivial);
    R.cls("waiter_parked_before_resolution", parked); R.cls("waiter_lost_subscribe_race_to_ready", lostrace); R.cls("waiter_found_ready", early_ready);
    R.cls(std::string("winner_") + (winner >= 0 ? fa_name(X.action[winner]) : "promise_destruction"));
    R.cls(std::string("type_") + ftype_name<T>());
    for (int w = 0; w < X.nwait; w++) if (X.by[w].queued_at_registration) R.cls("waiter_registered_with_ready_coroutines_queued_on_its_thread");
    if (callers >= 2) R.cls("rounds_with_competing_resolvers");
    if (chain >= 2) R.cls("resolution_with_chain_of_2plus");
    if (T_.stalls_fired_last_round()) R.cls("rounds_with_stall_fired");
    if (R.samples.size() < 4 && callers >= 2 && X.nwait >= 1) R.sample(witness());
}

inline void future_mt(const vf::opts &o, vf::report &R, vf::team &T, uint64_t rounds, int groups) {
    vf::rng master(vf::mix(o.seed, 0x01));
    for (uint64_t rn = 0; rn < rounds && R.nviol() < 5; rn++) {
        uint64_t rseed = master.next();
        switch (rseed % 5) {
        case 0: future_round<int>(o, R, T, rn, rseed, groups); break;
        case 1: future_round<void>(o, R, T, rn, rseed, groups); break;
        case 2: future_round<tracked_mo>(o, R, T, rn, rseed, groups); break;
        case 3: future_round<int &>(o, R, T, rn, rseed, groups); break;
        default: future_round<tracked>(o, R, T, rn, rseed, groups); break;
        }
    }
}

// ---------------------------------------------------------------------------------------------
// resolver = completion of an async<T> coroutine that was started into the future and is finished by another thread
template <typename T> cocls::async<T> gate_body(cocls::future<void> &gate, int action, uint64_t id, std::atomic<int> &runs) {
    co_await gate.has_value();
    runs.fetch_add(1, std::memory_order_relaxed);
    if (action == FA_EXC) throw vf::test_exc{(int)id};
    if constexpr (std::is_void_v<T>) co_return;
    else if constexpr (std::is_same_v<T, int>) co_return (int)id;
    else co_return T(id);
}
template <typename T> struct afut_round {
    cocls::future<void> gate;
    std::optional<cocls::promise<void>> gprom;
    fut_round<T> F; // reuse waiter machinery (F.f is the outer future)
    std::atomic<int> runs{0};
    int action = 0; int gate_kind = 0;
};
template <typename T>
void future_async_round(const vf::opts &o, vf::report &R, vf::team &T_, uint64_t rn, uint64_t rseed) {
    vf::rng r(rseed);
    long live0 = tracked::live.load();
    auto Ap = std::make_unique<afut_round<T>>();
    afut_round<T> &A = *Ap;
    A.gprom.emplace(A.gate.get_promise());
    A.action = r.chance(1, 4) ? FA_EXC : FA_VALUE;
    A.gate_kind = (int)r.below(3); // how the gate is opened: value, drop, promise destruction
    uint64_t id = 300 + rn % 50;
    fut_round<T> &X = A.F;
    X.f = std::unique_ptr<cocls::future<T>>(new cocls::future<T>(gate_body<T>(A.gate, A.action, id, A.runs).start())); // runs until it suspends on the gate
    X.ncont = 1;
    X.nwait = 1 + (int)r.below((uint32_t)std::min(3, T_.n - 1));
    std::string desc = std::string("async<") + ftype_name<T>() + "> body " + fa_name(A.action) + " gate" + std::to_string(A.gate_kind) + " W:";
    for (int w = 0; w < X.nwait; w++) { X.wkind[w] = (int)r.below(FW_NKINDS); desc += std::string(fw_name(X.wkind[w])) + ","; }
    std::string plan = T_.plan_by([&](int tid) { return tid == 0 ? future_sites_resolver() : future_sites_waiter(); }, r, 1 + X.nwait);
    vf::set_crash_ctx(R.prop.c_str(), "future_async_mt", o.seed, rn, (desc + " ; " + plan).c_str());
    T_.round([&](int tid) {
        vf::start_offset(rseed, tid);
        if (tid == 0) {
            if (A.gate_kind == 0) (*A.gprom)(); else if (A.gate_kind == 1) (*A.gprom)(cocls::drop);
            A.gprom.reset();
        } else if (tid <= X.nwait) f_waiter<T>(X, tid - 1);
    });
    R.cases++;
    outcome expect;
    if (A.action == FA_EXC) { expect.state = PS_EXC; expect.code = (int)id; } else { expect.state = PS_VALUE; expect.val = std::is_void_v<T> ? 0 : id; }
    std::string err;
    bool corrupt = false;
    if (A.runs.load() != 1) err = "coroutine body continued " + std::to_string(A.runs.load()) + " times after the gate opened";
    if (!X.f->ready()) { if (err.empty()) err = "outer future still pending after the coroutine was finished by another thread"; corrupt = true; }
    else { outcome o1 = read_future(*X.f, X.target, 4); if (!(o1 == expect) && err.empty()) err = "outer future holds " + o1.str() + " instead of " + expect.str(); }
    for (int w = 0; w < X.nwait; w++) {
        f_wrec &rec = X.w[w];
        int rel = rec.released.load();
        if (rel != 1) { if (err.empty()) err = std::string(fw_name(X.wkind[w])) + " waiter released " + std::to_string(rel) + " times"; corrupt = corrupt || rel == 0; continue; }
        if (!rec.ready_at_release && err.empty()) err = std::string(fw_name(X.wkind[w])) + " waiter ran while ready() was false";
        if (!(rec.o == expect) && err.empty()) err = std::string(fw_name(X.wkind[w])) + " waiter observed " + rec.o.str() + " instead of " + expect.str();
    }
    auto witness = [&]() {
        std::vector<std::string> ws;
        for (int w = 0; w < X.nwait; w++) ws.push_back(vf::jobj().kv("kind", fw_name(X.wkind[w])).kv("released", X.w[w].released.load()).kv("saw", X.w[w].o.str()).str());
        return vf::jobj().kv("scenario", "future_async_mt").kv("seed", (unsigned long long)o.seed).kv("round", (unsigned long long)rn).kv("desc", desc).raw("waiters", vf::jarr(ws)).kv("expected", expect.str()).kv("stall_plan", plan).str();
    };
    if (!err.empty()) { R.violation("monitor:wakeup|future_async_mt", err, witness()); if (corrupt || true) { (void)X.f.release(); (void)Ap.release(); } return; }
    X.f.reset();
    if (tracked::live.load() != live0) { R.violation("monitor:payload_balance|future_async_mt", "payload instances leaked/destroyed twice", witness()); return; }
    int parked = 0, lostrace = 0;
    std::string sig = desc;
    for (int w = 0; w < X.nwait; w++) {
        int cls = 0;
        for (int e : T_.events(1 + w)) { if (e == ev_subchk_pushed) { cls = 1; break; } if (e == ev_subchk_ready) { cls = 2; break; } }
        if (cls == 1) parked++; else if (cls == 2) lostrace++;
        sig += std::to_string(cls);
    }
    R.nontrivial_cases++;
    R.sig(sig);
    R.cls("waiter_parked_before_resolution", parked); R.cls("waiter_lost_subscribe_race_to_ready", lostrace);
    if (T_.stalls_fired_last_round()) R.cls("rounds_with_stall_fired");
    if (R.samples.size() < 2) R.sample(witness());
}
inline void future_async_mt(const vf::opts &o, vf::report &R, vf::team &T, uint64_t rounds) {
    vf::rng master(vf::mix(o.seed, 0x02));
    for (uint64_t rn = 0; rn < rounds && R.nviol() < 5; rn++) {
        uint64_t rseed = master.next();
        switch (rseed % 3) {
        case 0: future_async_round<int>(o, R, T, rn, rseed); break;
        case 1: future_async_round<void>(o, R, T, rn, rseed); break;
        default: future_async_round<tracked>(o, R, T, rn, rseed); break;
        }
    }
}

// ---------------------------------------------------------------------------------------------
// type-erased, move-only holder for the closures returned by promise::bind()
struct bound_any { virtual ~bound_any() = default; virtual bool call() = 0; };
template <typename F> struct bound_impl : bound_any { F f; explicit bound_impl(F &&x) : f(std::move(x)) {} bool call() override { return (bool)f(); } };
template <typename F> std::unique_ptr<bound_any> make_bound(F &&f) { return std::make_unique<bound_impl<std::decay_t<F>>>(std::move(f)); }

// single-thread promise lifecycle histories: promises are moved, move-assigned (over armed and over empty ones), invoked,
// dropped and destroyed; after every step every future must be in exactly the state the statement prescribes.
inline void promise_history(const vf::opts &o, vf::report &R, uint64_t histories) {
    vf::rng master(vf::mix(o.seed, 0x101));
    for (uint64_t hn = 0; hn < histories && R.nviol() < 5; hn++) {
        vf::rng r(master.next());
        vf::set_crash_ctx(R.prop.c_str(), "promise_history", o.seed, hn);
        constexpr int NF = 4, NS = 5;
        using P = vf::tracked_thr; // counted payload whose construction can be made to throw
        long live0 = tracked::live.load(), bad0 = tracked::bad.load();
        std::unique_ptr<cocls::future<P>> fut[NF];
        outcome model[NF];                 // expected state of every future
        std::optional<cocls::promise<P>> slot[NS];
        int owner[NS];                     // which future the promise in the slot points to (-1 none / empty promise)
        for (int i = 0; i < NS; i++) owner[i] = -1;
        // closures made by promise::bind(args): they OWN the resolution right - calling resolves with the bound arguments (once),
        // destroying an uncalled closure resolves to no-value like any destroyed promise
        constexpr int NB = 3;
        std::unique_ptr<bound_any> bound[NB]; int bowner[NB]; outcome bwhat[NB];
        for (int i = 0; i < NB; i++) bowner[i] = -1;
        int nf = 0;
        std::string trace, err;
        int len = 3 + (int)r.below(18);
        auto check = [&](const char *after) {
            for (int f = 0; f < nf && err.empty(); f++) {
                outcome got; got.state = PS_PENDING;
                if (fut[f]->ready()) got = read_future(*fut[f], nullptr, 0);
                if (!(got == model[f])) err = std::string("after ") + after + ": future #" + std::to_string(f) + " is " + got.str() + ", expected " + model[f].str();
            }
            for (int i = 0; i < NS && err.empty(); i++) if (slot[i]) {
                bool valid = (bool)*slot[i];
                if (valid != (owner[i] >= 0)) err = std::string("after ") + after + ": promise in slot " + std::to_string(i) + (valid ? " is armed" : " is empty") + " but the model says the opposite";
            }
        };
        for (int step = 0; step < len && err.empty(); step++) {
            uint32_t x = r.below(100);
            int a = (int)r.below(NS), b = (int)r.below(NS);
            if (x < 20 && nf < NF) { // new future, promise into slot a (move-assign over whatever is there)
                trace += "new->s" + std::to_string(a) + " ";
                fut[nf] = std::make_unique<cocls::future<P>>();
                if (slot[a]) { if (owner[a] >= 0) model[owner[a]].state = PS_CANCELED; *slot[a] = fut[nf]->get_promise(); }
                else slot[a].emplace(fut[nf]->get_promise());
                owner[a] = nf; model[nf].state = PS_PENDING; nf++;
            } else if (x < 40 && slot[a] && slot[b] && a != b) { // move-assign slot a = move(slot b): a's old future is dropped, b becomes empty
                trace += "s" + std::to_string(a) + "=move(s" + std::to_string(b) + ") ";
                if (owner[a] >= 0) model[owner[a]].state = PS_CANCELED;
                *slot[a] = std::move(*slot[b]);
                owner[a] = owner[b]; owner[b] = -1;
            } else if (x < 50 && slot[b] && !slot[a]) { // move-construct
                trace += "s" + std::to_string(a) + "(move(s" + std::to_string(b) + ")) ";
                slot[a].emplace(std::move(*slot[b]));
                owner[a] = owner[b]; owner[b] = -1;
            } else if (x < 70 && slot[a]) { // invoke with a value / exception / drop
                int how = (int)r.below(3);
                trace += std::string("s") + std::to_string(a) + (how == 0 ? "(value) " : how == 1 ? "(exception) " : "(drop) ");
                bool ok = how == 0 ? (bool)(*slot[a])(500 + step) : how == 1 ? (bool)(*slot[a])(vf::make_exc(600 + step)) : (bool)(*slot[a])(cocls::drop);
                if (ok != (owner[a] >= 0)) err = std::string("call reported ") + (ok ? "success" : "failure") + " on " + (owner[a] >= 0 ? "an armed" : "an empty") + " promise";
                if (owner[a] >= 0) {
                    outcome &m = model[owner[a]];
                    if (how == 0) { m.state = PS_VALUE; m.val = 500 + (uint64_t)step; } else if (how == 1) { m.state = PS_EXC; m.code = 600 + step; } else m.state = PS_CANCELED;
                    owner[a] = -1;
                }
            } else if (x < 76 && slot[a]) { // invoke with arguments from which the value cannot be constructed (the constructor throws)
                trace += "s" + std::to_string(a) + "(throwing value) ";
                int code = 700 + step; bool threw = false, ok = false;
                try { ok = (bool)(*slot[a])(vf::bomb{code}); } catch (const vf::test_exc &e) { threw = true; if (e.code != code) err = "foreign exception escaped the call"; }
                bool still_armed = (bool)*slot[a];
                if (owner[a] >= 0 && !still_armed && !threw && !ok) err = "the call consumed the promise and resolved the future (with the constructor's exception) but reported failure: a resolution took effect and no call reports success";
                if (owner[a] < 0) { if (ok) err = "call reported success on an empty promise"; }
                else if (still_armed) { if (ok) err = "call reported success but the promise is still armed"; } // failed cleanly: nothing happened
                else { // the call consumed the promise: then a resolution must have taken effect (the constructor's exception, or no-value)
                    outcome got; got.state = PS_PENDING;
                    if (fut[owner[a]]->ready()) got = read_future(*fut[owner[a]], nullptr, 0);
                    if (got.state == PS_PENDING) err = "promise consumed by a call whose value construction threw, but its future stays pending: no resolution can ever take effect (waiters hang)";
                    else if (!((got.state == PS_EXC && got.code == code) || got.state == PS_CANCELED)) err = "future resolved to " + got.str() + " by a call whose value construction threw";
                    model[owner[a]] = got; owner[a] = -1;
                }
                (void)threw;
            } else if (x < 85 && slot[a]) { // destroy the promise object
                trace += "~s" + std::to_string(a) + " ";
                if (owner[a] >= 0) model[owner[a]].state = PS_CANCELED;
                slot[a].reset(); owner[a] = -1;
            } else if (x < 89 && slot[a]) { // bind: the promise moves into a closure (slot a keeps an empty promise)
                int b2 = (int)r.below(NB), how = (int)r.below(3);
                trace += "s" + std::to_string(a) + ".bind(" + (how == 0 ? "value" : how == 1 ? "exception" : "drop") + ")->b" + std::to_string(b2) + " ";
                if (bound[b2]) { if (bowner[b2] >= 0) model[bowner[b2]].state = PS_CANCELED; bound[b2].reset(); bowner[b2] = -1; } // replaced closure is destroyed
                outcome w; if (how == 0) { w.state = PS_VALUE; w.val = 800 + (uint64_t)step; } else if (how == 1) { w.state = PS_EXC; w.code = 900 + step; } else w.state = PS_CANCELED;
                if (how == 0) bound[b2] = make_bound(slot[a]->bind(800 + step)); else if (how == 1) bound[b2] = make_bound(slot[a]->bind(vf::make_exc(900 + step))); else bound[b2] = make_bound(slot[a]->bind(cocls::drop));
                bowner[b2] = owner[a]; bwhat[b2] = w; owner[a] = -1;
            } else if (x < 91) { // call or destroy a bound closure
                int b2 = (int)r.below(NB);
                if (!bound[b2]) continue;
                if (r.chance(2, 3)) {
                    trace += "b" + std::to_string(b2) + "() ";
                    bool ok = bound[b2]->call();
                    if (ok != (bowner[b2] >= 0)) err = std::string("bound function reported ") + (ok ? "success" : "failure") + (bowner[b2] >= 0 ? " although it owns an armed promise" : " although its promise was already used");
                    if (bowner[b2] >= 0) { model[bowner[b2]] = bwhat[b2]; bowner[b2] = -1; }
                } else {
                    trace += "~b" + std::to_string(b2) + " ";
                    if (bowner[b2] >= 0) model[bowner[b2]].state = PS_CANCELED;
                    bound[b2].reset(); bowner[b2] = -1;
                }
            } else if (x < 94 && slot[a]) { // self move-assignment must change nothing
                trace += "s" + std::to_string(a) + "=move(self) ";
                cocls::promise<P> &ref = *slot[a];
                *slot[a] = std::move(ref);
            } else continue;
            check(trace.c_str());
        }
        for (int i = 0; i < NS; i++) if (slot[i]) { if (owner[i] >= 0) model[owner[i]].state = PS_CANCELED; slot[i].reset(); owner[i] = -1; }
        for (int i = 0; i < NB; i++) if (bound[i]) { if (bowner[i] >= 0) model[bowner[i]].state = PS_CANCELED; bound[i].reset(); bowner[i] = -1; }
        trace += "~all ";
        if (err.empty()) check("destruction of all promises");
        R.cases++;
        if (!err.empty()) {
            R.violation("monitor:resolution|promise_history", err, vf::jobj().kv("history", (unsigned long long)hn).kv("seed", (unsigned long long)o.seed).kv("ops", trace).kv("disagreement", err).str());
            for (int f = 0; f < nf; f++) (void)fut[f].release();
            for (int i = 0; i < NS; i++) if (slot[i]) { new (&*slot[i]) cocls::promise<P>(); }
            for (int i = 0; i < NB; i++) (void)bound[i].release();
            continue;
        }
        for (int f = 0; f < nf; f++) fut[f].reset();
        if (tracked::live.load() != live0 || tracked::bad.load() != bad0) {
            R.violation("monitor:payload_balance|promise_history", "stored values not destroyed exactly once", vf::jobj().kv("history", (unsigned long long)hn).kv("ops", trace).kv("live_delta", (long long)(tracked::live.load() - live0)).str());
            continue;
        }
        if (len >= 4) { R.nontrivial_cases++; R.sig(trace); }
        if (R.samples.size() < 2 && len > 8) R.sample(vf::jobj().kv("ops", trace).kv("result", "every future in the prescribed state after every step").str());
    }
}

// ---------------------------------------------------------------------------------------------
// promises whose DESTRUCTION carries a payload (promise_with_default / _v / _vp): the destruction of an armed promise is a
// resolver like any other - the future it points to gets exactly the default that was given together with THAT promise, also after
// the promise object was moved or move-assigned; an explicit call before the destruction wins and the default leaves no trace.
inline int g_pdef_const = 4242;
template <typename P, typename DP> void promise_default_history_t(const vf::opts &o, vf::report &R, uint64_t hn, vf::rng &r, const char *flavour) {
    constexpr int NF = 5, NS = 4;
    constexpr bool PER_OBJECT = std::is_same_v<DP, cocls::promise_with_default<P>>;
    long live0 = tracked::live.load(), bad0 = tracked::bad.load();
    std::unique_ptr<cocls::future<P>> fut[NF];
    outcome model[NF]; bool lenient[NF];  // lenient: future whose promise was overwritten by a move assignment (no-value or the old default are both accepted)
    uint64_t lenient_def[NF];
    std::optional<DP> slot[NS];
    int owner[NS]; uint64_t def[NS];      // future the promise in the slot points to, default value carried by that promise
    for (int i = 0; i < NS; i++) { owner[i] = -1; def[i] = 0; }
    for (int i = 0; i < NF; i++) { lenient[i] = false; lenient_def[i] = 0; }
    int nf = 0; std::string trace, err;
    int len = 3 + (int)r.below(14);
    auto fixed_def = [&](uint64_t d) -> uint64_t { if constexpr (PER_OBJECT) return d; else if constexpr (std::is_same_v<DP, cocls::promise_with_default_v<int, 77>>) return 77; else return 4242; };
    auto by_destruction = [&](int s) { if (owner[s] >= 0) { model[owner[s]].state = PS_VALUE; model[owner[s]].val = fixed_def(def[s]); owner[s] = -1; } };
    auto overwritten = [&](int s) { if (owner[s] >= 0) { lenient[owner[s]] = true; lenient_def[owner[s]] = fixed_def(def[s]); model[owner[s]].state = PS_CANCELED; owner[s] = -1; } };
    auto check = [&](const char *after) {
        for (int f = 0; f < nf && err.empty(); f++) {
            outcome got; got.state = PS_PENDING;
            if (fut[f]->ready()) got = read_future(*fut[f], nullptr, 0);
            if (got == model[f]) continue;
            if (lenient[f] && got.state == PS_VALUE && got.val == lenient_def[f]) continue;
            err = std::string("after ") + after + ": future #" + std::to_string(f) + " is " + got.str() + ", expected " + model[f].str();
        }
        for (int i = 0; i < NS && err.empty(); i++) if (slot[i]) {
            bool valid = (bool)*slot[i];
            if (valid != (owner[i] >= 0)) err = std::string("after ") + after + ": promise in slot " + std::to_string(i) + (valid ? " is armed" : " is empty") + " but the model says the opposite";
        }
    };
    auto make = [&](int f, uint64_t d) -> DP { if constexpr (PER_OBJECT) return DP(fut[f]->get_promise(), P(d)); else { (void)d; return DP(fut[f]->get_promise()); } };
    for (int step = 0; step < len && err.empty(); step++) {
        uint32_t x = r.below(100);
        int a = (int)r.below(NS), b = (int)r.below(NS);
        if (x < 25 && nf < NF) { // new future; its promise (with default 1000+step) is move-constructed into / move-assigned to slot a
            uint64_t d = 1000 + (uint64_t)step;
            trace += "new(def " + std::to_string(fixed_def(d)) + ")->s" + std::to_string(a) + " ";
            fut[nf] = std::make_unique<cocls::future<P>>();
            if (slot[a]) { overwritten(a); *slot[a] = make(nf, d); } else slot[a].emplace(make(nf, d));
            owner[a] = nf; def[a] = d; model[nf].state = PS_PENDING; nf++;
        } else if (x < 45 && slot[a] && slot[b] && a != b) { // move-assign: the default travels with the promise
            trace += "s" + std::to_string(a) + "=move(s" + std::to_string(b) + ") ";
            overwritten(a);
            *slot[a] = std::move(*slot[b]);
            owner[a] = owner[b]; def[a] = def[b]; owner[b] = -1;
        } else if (x < 55 && slot[b] && !slot[a]) { // move-construct
            trace += "s" + std::to_string(a) + "(move(s" + std::to_string(b) + ")) ";
            slot[a].emplace(std::move(*slot[b]));
            owner[a] = owner[b]; def[a] = def[b]; owner[b] = -1;
        } else if (x < 70 && slot[a]) { // explicit call: wins over the default
            int how = (int)r.below(3);
            trace += std::string("s") + std::to_string(a) + (how == 0 ? "(value) " : how == 1 ? "(exception) " : "(drop) ");
            bool ok = how == 0 ? (bool)(*slot[a])(500 + step) : how == 1 ? (bool)(*slot[a])(vf::make_exc(600 + step)) : (bool)(*slot[a])(cocls::drop);
            if (ok != (owner[a] >= 0)) err = std::string("call reported ") + (ok ? "success" : "failure") + " on " + (owner[a] >= 0 ? "an armed" : "an empty") + " promise";
            if (owner[a] >= 0) {
                outcome &m = model[owner[a]];
                if (how == 0) { m.state = PS_VALUE; m.val = 500 + (uint64_t)step; } else if (how == 1) { m.state = PS_EXC; m.code = 600 + step; } else m.state = PS_CANCELED;
                owner[a] = -1;
            }
        } else if (x < 92 && slot[a]) { // destroy the promise object: the default is the payload
            trace += "~s" + std::to_string(a) + " ";
            by_destruction(a); slot[a].reset();
        } else continue;
        check(trace.c_str());
    }
    for (int i = 0; i < NS; i++) if (slot[i]) { by_destruction(i); slot[i].reset(); }
    trace += "~all ";
    if (err.empty()) check("destruction of all promises");
    R.cases++;
    if (!err.empty()) {
        R.violation(std::string("monitor:resolution|promise_default_history/") + flavour, err, vf::jobj().kv("history", (unsigned long long)hn).kv("seed", (unsigned long long)o.seed).kv("promise_type", flavour).kv("ops", trace).kv("disagreement", err).str());
        for (int f = 0; f < nf; f++) (void)fut[f].release();
        return;
    }
    for (int f = 0; f < nf; f++) fut[f].reset();
    if (tracked::live.load() != live0 || tracked::bad.load() != bad0) {
        R.violation(std::string("monitor:payload_balance|promise_default_history/") + flavour, "default / stored values not destroyed exactly once, or a destroyed / moved-from default read", vf::jobj().kv("history", (unsigned long long)hn).kv("ops", trace).kv("live_delta", (long long)(tracked::live.load() - live0)).kv("bad_delta", (long long)(tracked::bad.load() - bad0)).str());
        return;
    }
    if (len >= 4) { R.nontrivial_cases++; R.sig(std::string(flavour) + " " + trace); }
    if (R.samples.size() < 2 && len > 8) R.sample(vf::jobj().kv("promise_type", flavour).kv("ops", trace).kv("result", "every future got the default given with the promise that was destroyed holding it, or the explicit call's payload").str());
}
inline void promise_default_history(const vf::opts &o, vf::report &R, uint64_t histories) {
    vf::rng master(vf::mix(o.seed, 0x103));
    for (uint64_t hn = 0; hn < histories && R.nviol() < 5; hn++) {
        vf::rng r(master.next());
        vf::set_crash_ctx(R.prop.c_str(), "promise_default_history", o.seed, hn);
        switch (hn % 4) {
        case 0: promise_default_history_t<vf::tracked, cocls::promise_with_default<vf::tracked>>(o, R, hn, r, "promise_with_default<counted>"); break;
        case 1: promise_default_history_t<int, cocls::promise_with_default<int>>(o, R, hn, r, "promise_with_default<int>"); break;
        case 2: promise_default_history_t<int, cocls::promise_with_default_v<int, 77>>(o, R, hn, r, "promise_with_default_v<int,77>"); break;
        default: promise_default_history_t<int, cocls::promise_with_default_vp<int, &g_pdef_const>>(o, R, hn, r, "promise_with_default_vp<int,&c>"); break;
        }
    }
}

// ---------------------------------------------------------------------------------------------
// ONE registered callback awaiter object used for a sequence of futures (the way call_fn_future_awaiter / future_conv objects are
// reused): for every future - found already resolved at registration, or resolved later - the awaiter is released exactly once,
// with the complete result of THAT future, and the future stays resolved.
inline void callback_awaiter_reuse(const vf::opts &o, vf::report &R, uint64_t cases) {
    vf::rng master(vf::mix(o.seed, 0x302));
    for (uint64_t cn = 0; cn < cases && R.nviol() < 5; cn++) {
        vf::rng r(master.next());
        vf::set_crash_ctx(R.prop.c_str(), "callback_awaiter_reuse", o.seed, cn);
        f_cb_awaiter<int> cb;
        int nops = 2 + (int)r.below(5);
        std::string trace, err;
        std::vector<std::unique_ptr<cocls::future<int>>> keep;
        for (int k = 0; k < nops && err.empty(); k++) {
            bool before = r.chance(1, 2); int how = (int)r.below(3);
            trace += std::string(before ? "resolved-before/" : "resolved-later/") + fa_name(how) + " ";
            keep.push_back(std::make_unique<cocls::future<int>>());
            cocls::future<int> &f = *keep.back();
            cocls::promise<int> p = f.get_promise();
            auto resolve = [&] { if (how == FA_VALUE) p(100 + k); else if (how == FA_EXC) p(vf::make_exc(200 + k)); else p(cocls::drop); };
            f_wrec rec;
            cb.f = &f; cb.rec = &rec;
            if (before) resolve();
            bool parked = f.operator co_await().subscribe(&cb);
            if (before && parked) { err = "registration on an already resolved future was accepted (the awaiter would never be released)"; }
            if (!before && !parked) { err = "registration on a pending future was refused"; }
            if (err.empty()) { if (!parked) cb.on_release(); else resolve(); }
            outcome expect; if (how == FA_VALUE) { expect.state = PS_VALUE; expect.val = 100 + (uint64_t)k; } else if (how == FA_EXC) { expect.state = PS_EXC; expect.code = 200 + k; } else expect.state = PS_CANCELED;
            if (err.empty() && rec.released.load() != 1) err = "callback awaiter released " + std::to_string(rec.released.load()) + " times for operation " + std::to_string(k);
            if (err.empty() && !(rec.o == expect)) err = "callback awaiter observed " + rec.o.str() + " instead of " + expect.str();
            if (err.empty() && !f.ready()) err = "future is not ready any more after its waiter was served";
            for (size_t j = 0; j < keep.size() && err.empty(); j++) if (!keep[j]->ready()) err = "an earlier, resolved future of the sequence turned back to pending";
            if (!err.empty()) err = "operation " + std::to_string(k) + " on the same awaiter object: " + err;
        }
        R.cases++;
        if (!err.empty()) { R.violation("monitor:wakeup|callback_awaiter_reuse", err, vf::jobj().kv("case", (unsigned long long)cn).kv("seed", (unsigned long long)o.seed).kv("ops", trace).str()); for (auto &k : keep) (void)k.release(); continue; }
        R.nontrivial_cases++;
        R.sig(trace);
        if (R.samples.size() < 2) R.sample(vf::jobj().kv("ops", trace).kv("result", "released once per operation with that operation's result").str());
    }
}


// ---------------------------------------------------------------------------------------------
// MANY coroutine waiters on one future (1-13: more than a suspend point carries inline), released by every kind of resolver - a call
// from ordinary code, a coroutine that awaits or discards the promise's suspend point, and the completion of an async coroutine that
// was started into the future (its final step hands the waiters over through the symmetric-transfer path). Every waiter exactly once.
inline cocls::async<void> fm_waiter(cocls::future<int> &f, int &released, int &val) {
    try { int v = co_await f; val = v; } catch (const cocls::await_canceled_exception &) { val = -1; } catch (...) { val = -2; }
    released++;
}
inline cocls::async<int> fm_async_source(cocls::future<void> &gate, int how) { bool hv = co_await gate.has_value(); (void)hv; if (how == 1) throw vf::test_exc{4}; co_return 42; }
inline cocls::async<void> fm_coro_resolver(cocls::promise<int> &p, int how, bool await_it, int &continued) {
    if (await_it) { if (how == 0) { bool ok = co_await p(42); (void)ok; } else { bool ok = co_await p(cocls::drop); (void)ok; } }
    else { if (how == 0) p(42); else p(cocls::drop); }
    continued++;
}
inline void future_many_waiters(const vf::opts &o, vf::report &R, uint64_t cases) {
    static const int counts[] = {1, 2, 3, 4, 4, 5, 6, 7, 8, 9, 12, 13};
    vf::rng master(vf::mix(o.seed, 0x02aa));
    for (uint64_t cn = 0; cn < cases && R.nviol() < 5; cn++) {
        vf::rng r(master.next());
        vf::set_crash_ctx(R.prop.c_str(), "future_many_waiters", o.seed, cn);
        int n = counts[r.below(12)], mode = (int)r.below(5), how = (int)r.below(2);
        static const char *mn[] = {"promise called from ordinary code", "coroutine co_awaits the promise's suspend point", "coroutine discards the promise's suspend point", "completion of an async coroutine started into the future",
                                   "two futures resolved, their suspend points gathered in ONE suspend point (merge or assignment onto the non-empty one), then flushed"};
        std::string desc = std::to_string(n) + " coroutine waiters, resolver: " + mn[mode] + (how == 0 ? ", value" : mode == 3 ? ", exception" : ", drop");
        std::string err;
        auto rel = std::make_unique<std::array<int, 16>>(); auto val = std::make_unique<std::array<int, 16>>(); rel->fill(0); val->fill(-9);
        int continued = 0;
        {
            cocls::future<void> gate; cocls::promise<void> gp = gate.get_promise();
            std::unique_ptr<cocls::future<int>> f;
            std::optional<cocls::promise<int>> p;
            if (mode == 3) f.reset(new cocls::future<int>(fm_async_source(gate, how)));
            else { f.reset(new cocls::future<int>()); p.emplace(f->get_promise()); }
            for (int i = 0; i < n; i++) fm_waiter(*f, (*rel)[(size_t)i], (*val)[(size_t)i]).detach();
            for (int i = 0; i < n && err.empty(); i++) if ((*rel)[(size_t)i] != 0) err = "waiter released before the resolution";
            // mode 4: a second future with its own waiters; the resolver keeps both returned suspend points in one variable
            cocls::future<int> f2; cocls::promise<int> p2 = f2.get_promise(); int n2 = 1 + (int)(cn % 5); std::array<int, 8> rel2{}, val2{};
            if (mode == 4) {
                for (int i = 0; i < n2; i++) fm_waiter(f2, rel2[(size_t)i], val2[(size_t)i]).detach();
                cocls::suspend_point<void> sp;
                if (how == 0) { sp = (*p)(42); sp = p2(42); }       // assignment onto a suspend point that already carries ready coroutines: they stay
                else { sp << (*p)(42); sp << p2(42); }
                bool none_yet = true; for (int i = 0; i < n; i++) none_yet = none_yet && (*rel)[(size_t)i] == 0;
                (void)none_yet; // ordinary code: whether they ran during the merge is not fixed; after the flush all must have
                sp.clear();
                for (int i = 0; i < n2 && err.empty(); i++) if (rel2[(size_t)i] != 1 || val2[(size_t)i] != 42) err = "waiter #" + std::to_string(i) + " of the SECOND gathered future released " + std::to_string(rel2[(size_t)i]) + " times";
                how = 0;
            } else p2(0);
            if (mode == 4) {}
            else if (mode == 0) { if (how == 0) (*p)(42); else (*p)(cocls::drop); }
            else if (mode == 1 || mode == 2) { fm_coro_resolver(*p, how, mode == 1, continued).detach(); if (continued != 1 && err.empty()) err = "resolving coroutine continued " + std::to_string(continued) + " times"; }
            else gp();
            int want = mode == 3 ? (how == 0 ? 42 : -2) : (how == 0 ? 42 : -1);
            for (int i = 0; i < n && err.empty(); i++) {
                if ((*rel)[(size_t)i] != 1) err = "waiter #" + std::to_string(i) + " of " + std::to_string(n) + " released " + std::to_string((*rel)[(size_t)i]) + " times";
                else if ((*val)[(size_t)i] != want) err = "waiter #" + std::to_string(i) + " observed " + std::to_string((*val)[(size_t)i]) + " instead of " + std::to_string(want);
            }
            if (!err.empty()) { (void)f.release(); } // waiters may still be registered on it
        }
        R.cases++;
        if (!err.empty()) { R.violation("monitor:wakeup|future_many_waiters", err, vf::jobj().kv("case", (unsigned long long)cn).kv("seed", (unsigned long long)o.seed).kv("desc", desc).str()); continue; }
        if (n >= 4) R.nontrivial_cases++;
        R.sig(desc, n >= 4);
        R.cls(std::string("many_waiters: ") + mn[mode]);
    }
}

} // namespace scn
