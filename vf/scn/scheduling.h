// C05 - coroutine-mode scheduling: run-to-suspension, FIFO ready queue, full drain.
// Random programs of scripted coroutines are executed on the real library; every coroutine logs BEGIN/END of each step and
// its FINISH into one per-thread trace. The trace is then replayed against a reference simulation of the statement:
//  * a coroutine made ready through a DISCARDED suspend point is appended to the ready queue (handles delivered by one and the
//    same suspend point form an unordered group) and must not run before the running coroutine suspends or finishes;
//  * when the running coroutine suspends/finishes the next one comes from the FRONT group of the queue (FIFO); exactly once;
//  * co_await pause() re-queues the pausing coroutine behind everything queued;
//  * for AWAITED suspend points and completion hand-over (not ordered by the statement) the oracle is lenient: the next
//    coroutine may be one of the delivered ones or the front of the queue;
//  * when control is back in ordinary code the queue must be empty.
#pragma once
#include <vf/team.h>
#include <vf/payload.h>
#include <cocls/future.h>
#include <cocls/async.h>
#include <cocls/mutex.h>
#include <cocls/queue.h>
#include <cocls/self.h>
#include <cocls/thread_pool.h>
#include <deque>
#include <memory>
#include <optional>

namespace scn {

enum { S_SPAWN_DISCARD = 0, S_SPAWN_AWAIT_SP, S_CALL_CHILD, S_PAUSE, S_RESOLVE_DISCARD, S_RESOLVE_AWAIT, S_AWAIT_FUT, S_LOCK, S_UNLOCK_DISCARD,
       S_UNLOCK_AWAIT, S_PUSH_DISCARD, S_PUSH_AWAIT, S_POP, S_START_CHILD, S_JOIN_STARTED, S_CREATE_SP_DISCARD, S_CREATE_SP_AWAIT, S_NESTED_DRAIN, S_RESOLVE_AWAIT_SELF, S_NKINDS };
inline const char *sk_name(int k) {
    static const char *n[] = {"spawn", "co_await spawn", "co_await child()", "pause", "resolve", "co_await resolve", "await", "lock", "unlock", "co_await unlock",
                              "push", "co_await push", "pop", "start() child", "join started child", "create_suspend_point(resolve)", "co_await create_suspend_point(resolve)",
                              "nested install_queue_and_call", "co_await [resolve + own handle]"};
    return n[k];
}
struct c5_step { int kind; int arg; };
enum { EV_BEGIN = 0, EV_END = 1, EV_FINISH = 2, EV_NORMAL = 3 };
enum { NA_START_ROOT = 0, NA_RESOLVE = 1, NA_UNBLOCK_POP = 2, NA_STOPPING = 3, NA_PUSH = 4 };
struct c5_event { int cid; int kind; int a; int b; };

struct c5_world {
    static constexpr int NF = 4, MAXC = 14;
    std::vector<std::vector<c5_step>> scripts;
    std::unique_ptr<cocls::future<int>> F[NF];
    std::optional<cocls::promise<int>> P[NF];
    cocls::mutex M;
    cocls::queue<int> Q;
    std::vector<c5_event> trace;
    int running = -1;
    int ncoro = 0;
    int script_of[MAXC] = {};
    int finished = 0;
    bool stopping = false;
    unsigned flags = 0; // 1: resumed while another coroutine was running; 2: suspended while not running
    int new_cid(int script) { if (ncoro >= MAXC) return -1; script_of[ncoro] = script; return ncoro++; }
    void log(int cid, int kind, int a = 0, int b = 0) { trace.push_back({cid, kind, a, b}); }
    void on_resume(int cid) { if (running != -1) flags |= 1; running = cid; }
    void on_suspend(int cid) { if (running != cid) flags |= 2; running = -1; }
    c5_world() { for (int k = 0; k < NF; k++) { F[k] = std::make_unique<cocls::future<int>>(); P[k].emplace(F[k]->get_promise()); } }
};
struct c5_stop {};

inline cocls::async<void> c5_coro(c5_world &W, int cid) {
    W.on_resume(cid);
    {
        cocls::mutex::ownership own;
        std::vector<std::unique_ptr<cocls::future<void>>> started; // children started with start(): nested run, joined before this coroutine ends
        const std::vector<c5_step> &sc = W.scripts[(size_t)W.script_of[cid]];
        try {
            for (size_t pc = 0; pc < sc.size(); pc++) {
                if (W.stopping) break;
                const c5_step st = sc[pc];
                W.log(cid, EV_BEGIN, (int)pc, st.kind);
                switch (st.kind) {
                case S_SPAWN_DISCARD: { int ch = W.new_cid(st.arg); if (ch >= 0) c5_coro(W, ch).detach(); break; }
                case S_SPAWN_AWAIT_SP: {
                    int ch = W.new_cid(st.arg);
                    if (ch >= 0) { cocls::suspend_point<void> sp = c5_coro(W, ch).detach(); W.on_suspend(cid); co_await sp; W.on_resume(cid); }
                    break;
                }
                case S_CALL_CHILD: {
                    int ch = W.new_cid(st.arg);
                    if (ch >= 0) {
                        if (own) own.release(); // never wait for a child while holding the mutex (scripted self-deadlock otherwise)
                        W.on_suspend(cid); co_await c5_coro(W, ch); W.on_resume(cid);
                    }
                    break;
                }
                case S_START_CHILD: {
                    int ch = W.new_cid(st.arg);
                    if (ch >= 0) {
                        // start(): the child runs NESTED inside this call until it suspends or finishes, then this coroutine continues.
                        // Nothing this coroutine queued before may run in between.
                        W.on_suspend(cid);
                        started.push_back(std::unique_ptr<cocls::future<void>>(new cocls::future<void>(c5_coro(W, ch).start())));
                        W.on_resume(cid);
                    }
                    break;
                }
                case S_NESTED_DRAIN:
                    // documented: with an active queue a nested activation is installed; everything queued is resumed and processed before
                    // the call returns, and the caller is still in coroutine mode afterwards
                    W.on_suspend(cid);
                    cocls::coro_queue::install_queue_and_call([] {});
                    W.on_resume(cid);
                    break;
                case S_PAUSE: W.on_suspend(cid); co_await cocls::pause(); W.on_resume(cid); break;
                case S_RESOLVE_DISCARD: if (W.P[st.arg]) (*W.P[st.arg])(cid); break;
                case S_RESOLVE_AWAIT: if (W.P[st.arg]) { cocls::suspend_point<bool> sp = (*W.P[st.arg])(cid); W.on_suspend(cid); co_await sp; W.on_resume(cid); } break;
                case S_RESOLVE_AWAIT_SELF:
                    // the awaited suspend point carries the released waiters AND, as its last entry, the awaiting coroutine's own handle
                    // (co_await self(), supported "to avoid double insert"): the waiters are queued and this coroutine goes on at once -
                    // observably the same as discarding the suspend point, and it must not be resumed a second time later
                    if (W.P[st.arg]) { cocls::suspend_point<bool> sp = (*W.P[st.arg])(cid); sp << (co_await cocls::self()); co_await sp; }
                    break;
                case S_CREATE_SP_DISCARD:
                    if (W.P[st.arg]) {
                        // the public helper collects what fn() made ready into a suspend point; discarding it re-queues them behind
                        // everything that was queued before
                        cocls::suspend_point<void> sp = cocls::coro_queue::create_suspend_point([&] { (*W.P[st.arg])(cid); });
                        (void)sp;
                    }
                    break;
                case S_CREATE_SP_AWAIT:
                    if (W.P[st.arg]) {
                        cocls::suspend_point<void> sp = cocls::coro_queue::create_suspend_point([&] { (*W.P[st.arg])(cid); });
                        W.on_suspend(cid); co_await sp; W.on_resume(cid);
                    }
                    break;
                case S_AWAIT_FUT: { W.on_suspend(cid); bool hv = co_await W.F[st.arg]->has_value(); (void)hv; W.on_resume(cid); break; }
                case S_LOCK: if (!own) { W.on_suspend(cid); own = co_await W.M.lock(); W.on_resume(cid); } break;
                case S_UNLOCK_DISCARD: if (own) own.release(); break;
                case S_UNLOCK_AWAIT: if (own) { cocls::suspend_point<void> sp = own.release(); W.on_suspend(cid); co_await sp; W.on_resume(cid); } break;
                case S_PUSH_DISCARD: W.Q.push(cid); break;
                case S_PUSH_AWAIT: { cocls::suspend_point<bool> sp = W.Q.push(cid); W.on_suspend(cid); co_await sp; W.on_resume(cid); break; }
                case S_POP: {
                    bool cancelled = false;
                    W.on_suspend(cid);
                    try { cocls::future<int> f = W.Q.pop(); int v = co_await f; (void)v; }
                    catch (const vf::test_exc &) { cancelled = true; }
                    catch (const cocls::await_canceled_exception &) { cancelled = true; }
                    W.on_resume(cid);
                    if (cancelled) throw c5_stop{};
                    break;
                }
                }
                W.log(cid, EV_END, (int)pc, st.kind);
            }
        } catch (const c5_stop &) {}
        if (own && !started.empty()) own.release(); // never join a child while holding the mutex it may need
        for (size_t k = 0; k < started.size(); k++) { // the futures live in this frame: wait for the started children (also when stopping)
            W.log(cid, EV_BEGIN, 1000 + (int)k, S_JOIN_STARTED);
            W.on_suspend(cid);
            bool hv = co_await started[k]->has_value();
            (void)hv;
            W.on_resume(cid);
            W.log(cid, EV_END, 1000 + (int)k, S_JOIN_STARTED);
        }
        W.log(cid, EV_FINISH);
        W.finished++;
        W.on_suspend(cid); // the ownership destructor below only queues (coroutine mode), it must not run anybody
    }
}

// ---------------------------------------------------------------------------------------------
// reference simulation driven by the recorded trace
struct c5_model {
    const c5_world &W;
    std::string err;
    static constexpr int NONE = -1, CHOOSE = -2;
    int running = NONE;
    std::vector<int> transfer;              // coroutines delivered by an awaited suspend point / completion hand-over
    std::deque<std::vector<int>> queue;     // ready queue: groups in enqueue order
    std::vector<int> callstack;             // coroutines that are inside a nested start() call (they continue when the nested activation returns)
    std::vector<bool> call_drains;          // per callstack entry: nested install_queue_and_call (returns when the queue is EMPTY) instead of
                                            // start() (returns at the first plain suspension of the started chain)
    std::vector<int> pending_after_choice;  // group to append after the choice is known (awaiting coroutine re-queued last)
    std::vector<int> side;                  // delivered by a suspend point that ORDINARY code discarded: resumed one after the other by
                                            // that code, not through the ready queue - the statement does not order them against the queue
    struct co { int pc = 0; int state = 0; /*0 new,1 ready,2 running,3 blocked,4 finished*/ bool mid_step = false; bool aborted = false; bool holds = false; int parent = -1; bool expect_end = false; std::vector<int> started; };
    std::vector<co> C;
    bool fut_resolved[c5_world::NF] = {};
    std::vector<int> fut_wait[c5_world::NF];
    int owner = -1; std::deque<int> mwait;
    int items = 0; std::deque<int> poppers;
    bool stopping = false;
    int ncoro = 0;
    uint64_t switches = 0, queued_resumes = 0, transfers = 0, max_queue = 0, nested_drains = 0;
    explicit c5_model(const c5_world &w) : W(w), C((size_t)c5_world::MAXC) {}

    void make_ready_group(const std::vector<int> &g) { if (g.empty()) return; for (int c : g) C[(size_t)c].state = 1; queue.push_back(g); size_t n = 0; for (auto &q : queue) n += q.size(); if (n > max_queue) max_queue = n; }
    // the running coroutine stops running (suspended or finished): who may run next?
    void yield_cpu(const std::vector<int> &deliver, int requeue_self) {
        transfer = deliver;
        for (int c : deliver) C[(size_t)c].state = 1;
        pending_after_choice.clear();
        if (requeue_self >= 0) pending_after_choice.push_back(requeue_self);
        if (transfer.empty() && requeue_self >= 0) { make_ready_group({requeue_self}); pending_after_choice.clear(); }
        if (transfer.empty() && requeue_self < 0 && !callstack.empty() && (!call_drains.back() || queue.empty())) {
            // plain suspension / completion without a waiting party inside a nested start(): the nested resume() returns to its caller.
            // Inside a nested install_queue_and_call the flush loop goes on with the front of the queue until the queue is empty.
            running = callstack.back(); callstack.pop_back(); call_drains.pop_back();
            return;
        }
        running = (transfer.empty() && queue.empty() && side.empty()) ? NONE : CHOOSE;
    }
    void deliver_from_ordinary_code(const std::vector<int> &g) { for (int c : g) { C[(size_t)c].state = 1; side.push_back(c); } if (!g.empty()) running = CHOOSE; }
    bool choose(int c) {
        // direct hand-over?
        for (size_t i = 0; i < transfer.size(); i++) if (transfer[i] == c) {
            transfer.erase(transfer.begin() + (long)i);
            std::vector<int> rest = transfer; transfer.clear();
            make_ready_group(rest);
            if (!pending_after_choice.empty()) { make_ready_group(pending_after_choice); pending_after_choice.clear(); }
            transfers++;
            return true;
        }
        // otherwise: front group of the queue (FIFO), or a coroutine ordinary code is about to resume; not yet chosen deliveries are queued behind
        if (!transfer.empty()) { std::vector<int> rest = transfer; transfer.clear(); make_ready_group(rest); if (!pending_after_choice.empty()) { make_ready_group(pending_after_choice); pending_after_choice.clear(); } }
        for (size_t i = 0; i < side.size(); i++) if (side[i] == c) { side.erase(side.begin() + (long)i); return true; }
        if (queue.empty()) return false;
        auto &g = queue.front();
        for (size_t i = 0; i < g.size(); i++) if (g[i] == c) { g.erase(g.begin() + (long)i); if (g.empty()) queue.pop_front(); queued_resumes++; return true; }
        return false;
    }
    int spawn(int script_unused) { (void)script_unused; return ncoro < c5_world::MAXC ? ncoro++ : -1; }

    std::string where(const c5_event &e, size_t idx) {
        return " at trace[" + std::to_string(idx) + "] (coroutine " + std::to_string(e.cid) + (e.kind == EV_BEGIN ? " BEGIN " : e.kind == EV_END ? " END " : e.kind == EV_FINISH ? " FINISH " : " normal-code ") +
               (e.kind == EV_NORMAL ? std::to_string(e.a) : (e.kind == EV_FINISH ? std::string("") : std::string(sk_name(e.b)) + " pc=" + std::to_string(e.a))) + ")";
    }
    void finish(int c) {
        co &x = C[(size_t)c];
        x.state = 4;
        if (x.holds) { x.holds = false; release_mutex_discard(); }
        std::vector<int> deliver;
        if (x.parent >= 0) deliver.push_back(x.parent);
        yield_cpu(deliver, -1);
    }
    int release_mutex() { // returns next owner or -1
        if (mwait.empty()) { owner = -1; return -1; }
        int n = mwait.front(); mwait.pop_front(); owner = n; C[(size_t)n].holds = true; return n;
    }
    void release_mutex_discard() { int n = release_mutex(); if (n >= 0) make_ready_group({n}); }

    void run(const std::vector<c5_event> &tr) {
        for (size_t i = 0; i < tr.size() && err.empty(); i++) {
            const c5_event &e = tr[i];
            if (e.kind == EV_NORMAL) {
                if (running != NONE || !callstack.empty()) { err = "ordinary code continued while a coroutine was still ready or running (ready queue not drained)" + where(e, i); break; }
                switch (e.a) {
                case NA_START_ROOT: { int c = spawn(e.b); if (c >= 0) deliver_from_ordinary_code({c}); break; }
                case NA_RESOLVE: if (!fut_resolved[e.b]) { fut_resolved[e.b] = true; std::vector<int> g = fut_wait[e.b]; fut_wait[e.b].clear(); deliver_from_ordinary_code(g); } break;
                case NA_UNBLOCK_POP: if (!poppers.empty()) { int p = poppers.front(); poppers.pop_front(); C[(size_t)p].aborted = true; deliver_from_ordinary_code({p}); } break;
                case NA_PUSH: if (!poppers.empty()) { int p = poppers.front(); poppers.pop_front(); deliver_from_ordinary_code({p}); } else items++; break;
                case NA_STOPPING: stopping = true; break;
                }
                continue;
            }
            int c = e.cid;
            if (c < 0 || c >= c5_world::MAXC) { err = "bad coroutine id in trace"; break; }
            if (running == CHOOSE) {
                if (C[(size_t)c].state != 1) { err = "coroutine " + std::to_string(c) + " ran although it was not ready (resumed twice, or never made ready)" + where(e, i); break; }
                if (!choose(c)) { err = "coroutine " + std::to_string(c) + " was resumed out of order: it is neither delivered by the awaited suspend point nor in the front group of the ready queue" + where(e, i); break; }
                running = c; C[(size_t)c].state = 2; switches++;
            }
            if (running == NONE) { err = "coroutine " + std::to_string(c) + " ran although nothing was ready (spurious or duplicate resumption)" + where(e, i); break; }
            if (running != c) { err = "coroutine " + std::to_string(c) + " ran while coroutine " + std::to_string(running) + " had neither suspended nor finished (pre-emption)" + where(e, i); break; }
            co &x = C[(size_t)c];
            const std::vector<c5_step> &sc = W.scripts[(size_t)W.script_of[c]];
            if (e.kind == EV_FINISH) {
                if (x.mid_step && !x.aborted) { err = "coroutine finished in the middle of a step" + where(e, i); break; }
                x.mid_step = false;
                finish(c);
                continue;
            }
            if (e.kind == EV_END) {
                if (!x.mid_step || x.pc != e.a) { err = "unexpected END" + where(e, i); break; }
                if (x.aborted && e.b != S_JOIN_STARTED) { err = "cancelled pop continued normally" + where(e, i); break; }
                x.mid_step = false; x.pc++;
                continue;
            }
            // BEGIN
            if (e.b == S_JOIN_STARTED) {
                size_t k = (size_t)(e.a - 1000);
                if (x.mid_step && x.aborted) x.mid_step = false; // the cancelled pop was abandoned
                if (x.mid_step || k >= x.started.size()) { err = "unexpected join" + where(e, i); break; }
                if (x.holds) { x.holds = false; release_mutex_discard(); } // released before joining (scripted deadlock otherwise)
                x.mid_step = true; x.pc = e.a;
                int ch = x.started[k];
                if (C[(size_t)ch].state != 4) { C[(size_t)ch].parent = c; x.state = 3; yield_cpu({}, -1); }
                continue;
            }
            if (x.mid_step || x.pc != e.a || (size_t)e.a >= sc.size()) { err = "unexpected BEGIN" + where(e, i); break; }
            if (stopping) { err = "step started after stop was requested" + where(e, i); break; }
            const c5_step st = sc[(size_t)e.a];
            x.mid_step = true;
            switch (st.kind) {
            case S_SPAWN_DISCARD: { int ch = spawn(st.arg); if (ch >= 0) make_ready_group({ch}); break; }
            case S_SPAWN_AWAIT_SP: { int ch = spawn(st.arg); if (ch >= 0) { x.state = 1; yield_cpu({ch}, c); } break; }
            case S_CALL_CHILD: {
                int ch = spawn(st.arg);
                if (ch >= 0) { if (x.holds) { x.holds = false; release_mutex_discard(); } C[(size_t)ch].parent = c; x.state = 3; yield_cpu({ch}, -1); }
                break;
            }
            case S_START_CHILD: {
                int ch = spawn(st.arg);
                if (ch >= 0) { x.started.push_back(ch); callstack.push_back(c); call_drains.push_back(false); running = ch; C[(size_t)ch].state = 2; switches++; }
                break;
            }
            case S_NESTED_DRAIN:
                if (!queue.empty()) { callstack.push_back(c); call_drains.push_back(true); transfer.clear(); pending_after_choice.clear(); running = CHOOSE; nested_drains++; }
                break;
            case S_PAUSE: x.state = 1; yield_cpu({}, c); break;
            case S_CREATE_SP_DISCARD:
            case S_RESOLVE_AWAIT_SELF:
            case S_RESOLVE_DISCARD: if (!fut_resolved[st.arg]) { fut_resolved[st.arg] = true; std::vector<int> g = fut_wait[st.arg]; fut_wait[st.arg].clear(); make_ready_group(g); } break;
            case S_CREATE_SP_AWAIT:
            case S_RESOLVE_AWAIT:
                if (!fut_resolved[st.arg]) {
                    fut_resolved[st.arg] = true; std::vector<int> g = fut_wait[st.arg]; fut_wait[st.arg].clear();
                    if (!g.empty()) { x.state = 1; yield_cpu(g, c); }
                }
                break;
            case S_AWAIT_FUT: if (!fut_resolved[st.arg]) { fut_wait[st.arg].push_back(c); x.state = 3; yield_cpu({}, -1); } break;
            case S_LOCK:
                if (!x.holds) { if (owner < 0) { owner = c; x.holds = true; } else { mwait.push_back(c); x.state = 3; yield_cpu({}, -1); } }
                break;
            case S_UNLOCK_DISCARD: if (x.holds) { x.holds = false; release_mutex_discard(); } break;
            case S_UNLOCK_AWAIT: if (x.holds) { x.holds = false; int n = release_mutex(); if (n >= 0) { x.state = 1; yield_cpu({n}, c); } } break;
            case S_PUSH_DISCARD: if (!poppers.empty()) { int p = poppers.front(); poppers.pop_front(); make_ready_group({p}); } else items++; break;
            case S_PUSH_AWAIT: if (!poppers.empty()) { int p = poppers.front(); poppers.pop_front(); x.state = 1; yield_cpu({p}, c); } else items++; break;
            case S_POP: if (items > 0) items--; else { poppers.push_back(c); x.state = 3; yield_cpu({}, -1); } break;
            }
        }
        if (err.empty() && running != NONE) err = "trace ended while coroutines were still ready: the ready queue was not drained before control returned to ordinary code";
        if (err.empty()) for (auto &g : queue) if (!g.empty()) err = "ready coroutine left un-run";
        if (err.empty() && !side.empty()) err = "a coroutine made ready by ordinary code was never resumed";
    }
};

// general scripts: indices [0, nscripts); nested-safe scripts (used for children started with start(), which run nested inside the
// caller): indices [nscripts, nscripts+nsafe) - they never transfer control (no pause, no awaited suspend point, no co_await child)
inline std::vector<c5_step> c5_random_script(vf::rng &r, int nscripts, int nsafe, bool nested_safe) {
    std::vector<c5_step> sc;
    int len = 1 + (int)r.below(nested_safe ? 6 : 12);
    for (int i = 0; i < len; i++) {
        uint32_t x = r.below(100);
        c5_step st{};
        if (x < 9) { st.kind = S_SPAWN_DISCARD; st.arg = (int)r.below((uint32_t)nscripts); }
        else if (x < 14) { if (nested_safe) continue; st.kind = S_SPAWN_AWAIT_SP; st.arg = (int)r.below((uint32_t)nscripts); }
        else if (x < 19) { if (nested_safe) continue; st.kind = S_CALL_CHILD; st.arg = (int)r.below((uint32_t)nscripts); }
        else if (x < 27 && nsafe > 0) { st.kind = S_START_CHILD; st.arg = nscripts + (int)r.below((uint32_t)nsafe); }
        else if (x < 34) { if (nested_safe) continue; st.kind = S_PAUSE; }
        else if (x < 36) { if (nested_safe) continue; st.kind = S_NESTED_DRAIN; }
        else if (x < 42) { st.kind = S_RESOLVE_DISCARD; st.arg = (int)r.below(c5_world::NF); }
        else if (x < 45) { st.kind = nested_safe || r.chance(1, 2) ? S_CREATE_SP_DISCARD : S_CREATE_SP_AWAIT; st.arg = (int)r.below(c5_world::NF); }
        else if (x < 50) { if (nested_safe) continue; st.kind = r.chance(1, 3) ? S_RESOLVE_AWAIT_SELF : S_RESOLVE_AWAIT; st.arg = (int)r.below(c5_world::NF); }
        else if (x < 61) { st.kind = S_AWAIT_FUT; st.arg = (int)r.below(c5_world::NF); }
        else if (x < 70) st.kind = S_LOCK;
        else if (x < 77) st.kind = S_UNLOCK_DISCARD;
        else if (x < 82) { if (nested_safe) continue; st.kind = S_UNLOCK_AWAIT; }
        else if (x < 89) st.kind = S_PUSH_DISCARD;
        else if (x < 93) { if (nested_safe) continue; st.kind = S_PUSH_AWAIT; }
        else st.kind = S_POP;
        sc.push_back(st);
    }
    return sc;
}

inline void scheduling_programs(const vf::opts &o, vf::report &R, uint64_t programs) {
    vf::rng master(vf::mix(o.seed, 0x05));
    for (uint64_t pn = 0; pn < programs && R.nviol() < 5; pn++) {
        vf::rng r(master.next());
        vf::set_crash_ctx(R.prop.c_str(), "scheduling_programs", o.seed, pn);
        auto Wp = std::make_unique<c5_world>();
        c5_world &W = *Wp;
        int nscripts = 2 + (int)r.below(5);
        int nsafe = (int)r.below(3);
        for (int s = 0; s < nscripts; s++) W.scripts.push_back(c5_random_script(r, nscripts, nsafe, false));
        for (int s = 0; s < nsafe; s++) W.scripts.push_back(c5_random_script(r, nscripts, nsafe, true));
        int nroots = 1 + (int)r.below(3);
        bool bad_active = false;
        for (int k = 0; k < nroots; k++) { // roots entered from ordinary code; entry from inside a coroutine is covered by the spawn steps
            int script = (int)r.below((uint32_t)nscripts);
            int c = W.new_cid(script);
            if (c < 0) break;
            W.log(-1, EV_NORMAL, NA_START_ROOT, script);
            c5_coro(W, c).detach();
            if (cocls::coro_queue::is_active()) bad_active = true;
        }
        // some traffic from ordinary code, then cleanup until everything finished
        int extra = (int)r.below(4), unwound = 0;
        for (int k = 0; k < extra; k++) {
            // a third of these actions happen in a DESTRUCTOR that runs while ordinary code is being unwound by an exception (a guard
            // object resolving / pushing on scope exit): the activation it starts must drain the ready queue exactly like any other
            bool unwinding = r.chance(1, 3);
            if (r.chance(1, 2)) {
                int f = (int)r.below(c5_world::NF); W.log(-1, EV_NORMAL, NA_RESOLVE, f);
                if (W.P[f]) {
                    if (!unwinding) (*W.P[f])(-1);
                    else { try { struct on_exit { cocls::promise<int> &p; ~on_exit() { p(-1); } } g{*W.P[f]}; throw 1; } catch (int) {} unwound++; }
                    W.P[f].reset();
                }
            } else {
                W.log(-1, EV_NORMAL, NA_PUSH, 0);
                if (!unwinding) W.Q.push(-1);
                else { try { struct on_exit { cocls::queue<int> &q; ~on_exit() { q.push(-1); } } g{W.Q}; throw 1; } catch (int) {} unwound++; }
            }
            if (cocls::coro_queue::is_active()) bad_active = true;
        }
        W.log(-1, EV_NORMAL, NA_STOPPING, 0);
        W.stopping = true;
        for (int round = 0; round < 40 && W.finished < W.ncoro; round++) {
            for (int f = 0; f < c5_world::NF; f++) { W.log(-1, EV_NORMAL, NA_RESOLVE, f); if (W.P[f]) { (*W.P[f])(cocls::drop); W.P[f].reset(); } }
            for (int k = 0; k < c5_world::MAXC; k++) { W.log(-1, EV_NORMAL, NA_UNBLOCK_POP, 0); if (!W.Q.unblock_pop(vf::make_exc(1))) break; }
            if (cocls::coro_queue::is_active()) bad_active = true;
        }
        for (int f = 0; f < c5_world::NF; f++) if (W.P[f]) W.P[f].reset();
        R.cases++;
        c5_model M(W);
        M.run(W.trace);
        std::string err = M.err;
        if (err.empty() && (W.flags & 1)) err = "a coroutine was resumed while another one (or itself) was marked running";
        if (err.empty() && (W.flags & 2)) err = "harness: suspension bookkeeping inconsistent";
        if (err.empty() && bad_active) err = "coro_queue::is_active() is true after the outermost activation returned to ordinary code";
        if (err.empty() && W.finished != W.ncoro) err = "only " + std::to_string(W.finished) + " of " + std::to_string(W.ncoro) + " coroutines finished after everything they wait for was resolved";
        auto describe = [&]() {
            std::vector<std::string> ss;
            for (auto &sc : W.scripts) { std::string s; for (auto &st : sc) s += std::string(sk_name(st.kind)) + (st.kind <= S_CALL_CHILD || st.kind == S_START_CHILD || st.kind >= S_CREATE_SP_DISCARD || (st.kind >= S_RESOLVE_DISCARD && st.kind <= S_AWAIT_FUT) ? "(" + std::to_string(st.arg) + ")" : "") + "; "; ss.push_back(vf::jstr(s)); }
            std::string tr;
            for (size_t i = 0; i < W.trace.size() && i < 400; i++) { auto &e = W.trace[i]; tr += (e.cid < 0 ? "N" + std::to_string(e.a) + ":" + std::to_string(e.b) : std::to_string(e.cid) + (e.kind == EV_BEGIN ? "b" : e.kind == EV_END ? "e" : "F") + (e.kind == EV_FINISH ? "" : std::to_string(e.a))) + " "; }
            return vf::jobj().kv("scenario", "scheduling_programs").kv("seed", (unsigned long long)o.seed).kv("program", (unsigned long long)pn).raw("scripts", vf::jarr(ss))
                .kv("roots", nroots).kv("trace", tr).kv("coroutines", W.ncoro).str();
        };
        if (!err.empty()) { R.violation("monitor:trace|scheduling_programs", err, describe()); (void)Wp.release(); continue; }
        bool nontrivial = M.switches >= 3 && W.ncoro >= 2;
        if (nontrivial) R.nontrivial_cases++;
        if (nontrivial) {
            // signature: the sequence of context switches (who ran) - distinct schedules
            std::string sg; int last = -9;
            for (auto &e : W.trace) if (e.cid != last) { sg += std::to_string(e.cid) + ","; last = e.cid; }
            std::string ks; for (auto &sc : W.scripts) { for (auto &st : sc) ks += (char)('a' + st.kind); ks += "|"; }
            R.sig(ks + sg);
        }
        R.cls("context_switches", M.switches); R.cls("resumed_from_ready_queue", M.queued_resumes); R.cls("direct_transfers", M.transfers);
        R.cls("coroutines", (uint64_t)W.ncoro); if (M.max_queue >= 3) R.cls("programs_with_3plus_queued");
        if (M.nested_drains) R.cls("nested_install_queue_and_call_with_queued_coroutines", M.nested_drains);
        if (unwound) R.cls("activations_started_by_a_destructor_during_stack_unwinding", (uint64_t)unwound);
        if (R.samples.size() < 3 && W.ncoro >= 4) R.sample(describe());
    }
}

// ---------------------------------------------------------------------------------------------
// Wake-ups that reach the thread through coro_queue::resume() (the thread-pool paths): a coroutine W stops a pool while other
// coroutines are parked in `co_await pool` behind a blocked worker. Their cancellation happens inside W's stop() call, on W's thread,
// while W is RUNNING - they are ready coroutines now and must not start before W suspends or finishes (also when W's ready queue is
// empty at that moment), and all of them must have run when control is back in ordinary code.
struct pcs_world { std::vector<int> trace; cocls::thread_pool *pool = nullptr; int cancelled = 0, ran = 0; cocls::future<void> g; std::optional<cocls::promise<void>> gp; pcs_world() { gp.emplace(g.get_promise()); } };
inline cocls::async<void> pcs_helper(pcs_world &W) { bool hv = co_await W.g.has_value(); (void)hv; W.trace.push_back(150); }
inline cocls::async<void> pcs_parked(pcs_world &W, int id) {
    try { co_await *W.pool; W.ran++; W.trace.push_back(100 + id); }
    catch (const cocls::await_canceled_exception &) { W.cancelled++; W.trace.push_back(200 + id); }
}
inline cocls::async<void> pcs_waker(pcs_world &W, int extra_steps, bool destroy, bool prequeue) {
    W.trace.push_back(1);
    if (prequeue) { (*W.gp)(); W.gp.reset(); } // the helper is ready and queued now (discarded suspend point): the ready queue is not empty
    if (destroy) { delete W.pool; W.pool = nullptr; } else W.pool->stop(); // cancels the parked coroutines (they are READY now)
    W.trace.push_back(2);
    for (int i = 0; i < extra_steps; i++) W.trace.push_back(3);
    W.trace.push_back(4);
    co_return;
}
inline void pool_stop_from_coroutine(const vf::opts &o, vf::report &R, uint64_t cases) {
    vf::rng master(vf::mix(o.seed, 0x505));
    for (uint64_t cn = 0; cn < cases && R.nviol() < 5; cn++) {
        vf::rng r(master.next());
        int nparked = 1 + (int)r.below(4), extra = (int)r.below(3); bool destroy = r.chance(1, 3), prequeued = r.chance(1, 3);
        std::string desc = "parked=" + std::to_string(nparked) + (destroy ? " pool destroyed" : " stop()") + (prequeued ? " (something already queued)" : " (ready queue empty)");
        vf::set_crash_ctx(R.prop.c_str(), "pool_stop_from_coroutine", o.seed, cn, desc.c_str());
        auto Wp = std::make_unique<pcs_world>(); pcs_world &W = *Wp;
        W.pool = new cocls::thread_pool(1);
        cocls::thread_pool *pp = W.pool;
        std::atomic<int> blocker_started{0};
        // the only worker is busy until the pool is flagged as stopped: nothing parked behind it can be executed
        W.pool->run_detached([pp, &blocker_started] { blocker_started.store(1, std::memory_order_release); blocker_started.notify_all(); while (!pp->is_stopped()) usleep(50); });
        blocker_started.wait(0, std::memory_order_acquire);
        for (int i = 0; i < nparked; i++) pcs_parked(W, i).detach(); // ordinary code: each runs up to `co_await pool` and parks in the pool's queue
        bool active_after = false;
        if (prequeued) pcs_helper(W).detach(); // parks on W.g
        pcs_waker(W, extra, destroy, prequeued).detach();
        active_after = cocls::coro_queue::is_active();
        if (W.pool) { delete W.pool; W.pool = nullptr; }
        R.cases++;
        std::string err;
        // the waker's events 1,2,3*,4 must be contiguous from its first event on: nobody else runs while it is running
        size_t first = 0; while (first < W.trace.size() && W.trace[first] != 1) first++;
        size_t need = 3 + (size_t)extra;
        if (W.gp) { (*W.gp)(); W.gp.reset(); }
        if (first + need > W.trace.size()) err = "the stopping coroutine did not run to completion";
        for (size_t k = 0; k < need && err.empty(); k++) { int ev = W.trace[first + k]; if (ev >= 100) err = "a coroutine cancelled by stop() started executing while the coroutine that called stop() was still running (pre-emption)"; }
        if (err.empty() && W.cancelled + W.ran != nparked) err = std::to_string(nparked - W.cancelled - W.ran) + " parked coroutine(s) neither executed nor cancelled when control returned to ordinary code";
        if (err.empty() && W.ran) err = "a coroutine parked behind the blocked worker was executed";
        if (err.empty() && active_after) err = "coroutine mode still active in ordinary code";
        if (!err.empty()) { std::string tr; for (int e : W.trace) tr += std::to_string(e) + " "; R.violation("monitor:trace|pool_stop_from_coroutine", err, vf::jobj().kv("case", (unsigned long long)cn).kv("desc", desc).kv("trace", tr).str()); continue; }
        R.nontrivial_cases++;
        R.sig(desc + " x" + std::to_string(extra));
        R.cls("coroutines_cancelled_by_a_stop_called_from_a_coroutine", (uint64_t)W.cancelled);
        if (R.samples.size() < 2) R.sample(vf::jobj().kv("case", desc).kv("result", "cancelled coroutines ran only after the stopping coroutine finished").str());
    }
}


// ---------------------------------------------------------------------------------------------
// A coroutine that runs OUTSIDE coroutine mode: a bare coroutine resumed by ordinary code with handle.resume() (foreign event loop,
// callback of another library). It wakes waiting coroutines by resolving promises and pushing into queues, discarding or awaiting the
// suspend points, and regularly returns to ordinary code. Expected (statement): no ready queue is active when it starts running, so a
// discarded suspend point runs its coroutines at once; `co_await sp` on a non-empty suspend point runs them and continues the awaiting
// coroutine EXACTLY ONCE - from inside the temporary ready queue, i.e. in coroutine mode until it returns to ordinary code: from then on
// coroutines it makes ready wait until it suspends. Whenever ordinary code regains control nothing ready is left un-run, no queue is
// active, and the bare coroutine has continued only past suspensions that ordinary code (or its own awaited wake-ups) ended.
struct bc_task {
    struct promise_type {
        bc_task get_return_object() { return {std::coroutine_handle<promise_type>::from_promise(*this)}; }
        std::suspend_always initial_suspend() noexcept { return {}; }
        std::suspend_always final_suspend() noexcept { return {}; }
        void return_void() {}
        void unhandled_exception() { std::terminate(); }
    };
    std::coroutine_handle<promise_type> h;
};
enum { BC_RESOLVE_DISCARD = 0, BC_RESOLVE_AWAIT, BC_PUSH_DISCARD, BC_PUSH_AWAIT, BC_YIELD, BC_UNLOCK_DISCARD, BC_UNLOCK_AWAIT, BC_NKINDS };
struct bc_step { int kind; int k; };
struct bc_world {
    static constexpr int NF = 8;
    cocls::future<int> f[NF]; std::optional<cocls::promise<int>> p[NF];
    cocls::queue<int> q;
    static constexpr int NM = 3, NID = 2 * NF + NM;
    cocls::mutex mx[NM]; std::optional<cocls::mutex::ownership> held[NM]; bool has_locker[NM] = {}; // mutexes held by the bare coroutine, one coroutine waiting for each
    int ran[NID] = {}, expect[NID] = {}; bool queued[NID] = {}; // 0..NF-1 future waiters, NF.. queue poppers, 2NF.. lock waiters
    bool has_waiter[NF] = {};
    std::deque<int> poppers; int npoppers = 0; // waiting pops in arrival order (model)
    int awaits = 0, continues = 0, driver_continues = 0; bool finished = false;
    bool coro_mode = false;
    std::string err;
    void made_ready(int id) { if (coro_mode) queued[id] = true; else expect[id]++; }
    void drain() { for (int i = 0; i < NID; i++) if (queued[i]) { queued[i] = false; expect[i]++; } }
    void check(const char *after) {
        if (!err.empty()) return;
        for (int i = 0; i < NID; i++) if (ran[i] != expect[i]) {
            err = std::string("after ") + after + ": " + (i < NF ? "waiter of future " + std::to_string(i) : i < 2 * NF ? "waiting pop #" + std::to_string(i - NF) : "coroutine waiting for mutex " + std::to_string(i - 2 * NF)) + " continued " + std::to_string(ran[i]) + " times, expected " + std::to_string(expect[i]) + (coro_mode ? " (driver runs inside the temporary ready queue)" : " (no ready queue active)");
            return;
        }
    }
};
inline cocls::async<void> bc_waiter(bc_world &W, int k) { int v = co_await W.f[k]; if (v != 100 + k && W.err.empty()) W.err = "waiter received a wrong value"; W.ran[k]++; }
inline cocls::async<void> bc_popper(bc_world &W, int id) { cocls::future<int> f = W.q.pop(); bool hv = co_await f.has_value(); (void)hv; W.ran[bc_world::NF + id]++; }
inline cocls::async<void> bc_locker(bc_world &W, int m) { auto own = co_await W.mx[m].lock(); W.ran[2 * bc_world::NF + m]++; } // releases at its end
inline bc_task bc_driver(bc_world &W, const std::vector<bc_step> &steps, std::string &trace) {
    W.driver_continues++;
    for (size_t i = 0; i < steps.size() && W.err.empty(); i++) {
        const bc_step st = steps[i];
        switch (st.kind) {
        case BC_RESOLVE_DISCARD:
            if (!W.p[st.k]) break;
            trace += "resolve(" + std::to_string(st.k) + ") ";
            if (W.has_waiter[st.k]) W.made_ready(st.k);
            { bool ok = (*W.p[st.k])(100 + st.k); W.p[st.k].reset(); if (!ok && W.err.empty()) W.err = "promise call failed"; }
            break;
        case BC_RESOLVE_AWAIT: {
            if (!W.p[st.k]) break;
            trace += "co_await resolve(" + std::to_string(st.k) + ") ";
            bool had = W.has_waiter[st.k];
            if (had) W.made_ready(st.k);
            cocls::suspend_point<bool> sp = (*W.p[st.k])(100 + st.k); W.p[st.k].reset();
            W.awaits++;
            bool ok = co_await sp;
            W.continues++;
            if (!ok && W.err.empty()) W.err = "promise call failed";
            if (had) { W.drain(); W.coro_mode = true; } // really suspended: continued from inside the temporary ready queue
            if (W.continues != W.awaits && W.err.empty()) W.err = "bare coroutine continued " + std::to_string(W.continues) + " times for " + std::to_string(W.awaits) + " awaited suspend points";
            break;
        }
        case BC_PUSH_DISCARD: case BC_PUSH_AWAIT: {
            bool wakes = !W.poppers.empty();
            int id = wakes ? W.poppers.front() : -1;
            if (wakes) { W.poppers.pop_front(); W.made_ready(bc_world::NF + id); }
            if (st.kind == BC_PUSH_DISCARD) { trace += "push "; bool ok = W.q.push(7); (void)ok; }
            else {
                trace += "co_await push ";
                cocls::suspend_point<bool> sp = W.q.push(7);
                W.awaits++;
                bool ok = co_await sp; (void)ok;
                W.continues++;
                if (wakes) { W.drain(); W.coro_mode = true; }
                if (W.continues != W.awaits && W.err.empty()) W.err = "bare coroutine continued " + std::to_string(W.continues) + " times for " + std::to_string(W.awaits) + " awaited suspend points";
            }
            break;
        }
        case BC_UNLOCK_DISCARD: case BC_UNLOCK_AWAIT: {
            int m = st.k % bc_world::NM;
            if (!W.held[m]) break;
            bool had = W.has_locker[m];
            if (had) { W.made_ready(2 * bc_world::NF + m); W.has_locker[m] = false; }
            if (st.kind == BC_UNLOCK_DISCARD) { trace += "release(" + std::to_string(m) + ") "; W.held[m]->release(); W.held[m].reset(); }
            else {
                trace += "co_await release(" + std::to_string(m) + ") ";
                cocls::suspend_point<void> sp = W.held[m]->release(); W.held[m].reset();
                W.awaits++;
                co_await sp;
                W.continues++;
                if (had) { W.drain(); W.coro_mode = true; }
                if (W.continues != W.awaits && W.err.empty()) W.err = "bare coroutine continued " + std::to_string(W.continues) + " times for " + std::to_string(W.awaits) + " awaited suspend points";
            }
            break;
        }
        default:
            trace += "yield ";
            co_await std::suspend_always{};
            W.driver_continues++;
            break;
        }
        W.check(st.kind == BC_YIELD ? "resumed by ordinary code" : "a step of the bare coroutine");
    }
    trace += "yield ";
    co_await std::suspend_always{}; // the last suspension is always one that only ordinary code may end
    W.driver_continues++;
    W.finished = true;
}
inline void bare_coroutine_programs(const vf::opts &o, vf::report &R, uint64_t programs) {
    vf::rng master(vf::mix(o.seed, 0x05bc));
    for (uint64_t pn = 0; pn < programs && R.nviol() < 5; pn++) {
        vf::rng r(master.next());
        vf::set_crash_ctx(R.prop.c_str(), "bare_coroutine_programs", o.seed, pn);
        auto Wp = std::make_unique<bc_world>(); bc_world &W = *Wp;
        std::string trace = "waiters:";
        for (int k = 0; k < bc_world::NF; k++) { W.p[k].emplace(W.f[k].get_promise()); if (r.chance(2, 3)) { W.has_waiter[k] = true; bc_waiter(W, k).detach(); trace += std::to_string(k); } }
        int np = (int)r.below(5);
        for (int i = 0; i < np; i++) { bc_popper(W, i).detach(); W.poppers.push_back(i); }
        W.npoppers = np;
        for (int m = 0; m < bc_world::NM; m++) { W.held[m].emplace(W.mx[m].try_lock()); if (r.chance(2, 3)) { W.has_locker[m] = true; bc_locker(W, m).detach(); trace += " L" + std::to_string(m); } }
        trace += " poppers:" + std::to_string(np) + " | ";
        std::vector<bc_step> steps;
        int len = 2 + (int)r.below(14);
        for (int i = 0; i < len; i++) { uint32_t x = r.below(100); bc_step st{x < 20 ? BC_RESOLVE_DISCARD : x < 42 ? BC_RESOLVE_AWAIT : x < 50 ? BC_PUSH_DISCARD : x < 62 ? BC_PUSH_AWAIT : x < 70 ? BC_UNLOCK_DISCARD : x < 84 ? BC_UNLOCK_AWAIT : BC_YIELD, (int)r.below(bc_world::NF)}; steps.push_back(st); }
        bc_task t = bc_driver(W, steps, trace);
        int resumes = 0;
        while (!W.finished && W.err.empty() && resumes < 100) {
            resumes++;
            t.h.resume();
            W.drain(); W.coro_mode = false; // ordinary code again: a temporary queue has been drained before control came back
            W.check("the bare coroutine returned to ordinary code");
            if (W.err.empty() && W.driver_continues != resumes) W.err = "bare coroutine continued past a suspension nobody ended (continued " + std::to_string(W.driver_continues) + " times, resumed " + std::to_string(resumes) + " times by ordinary code)";
            if (W.err.empty() && cocls::coro_queue::is_active()) W.err = "a ready queue is still active in ordinary code";
        }
        R.cases++;
        if (!W.err.empty()) {
            R.violation("monitor:scheduling|bare_coroutine_programs", W.err, vf::jobj().kv("program", (unsigned long long)pn).kv("seed", (unsigned long long)o.seed).kv("trace", trace).str());
            (void)Wp.release(); // frames in an unknown state: leaked on purpose
            continue;
        }
        t.h.destroy();
        for (int m = 0; m < bc_world::NM; m++) if (W.held[m]) { W.held[m]->release(); W.held[m].reset(); } // lockers still waiting get the mutex now and finish
        for (int k = 0; k < bc_world::NF; k++) W.p[k].reset(); // unresolved promises: their waiters are cancelled (exception escapes into the detached coroutine: swallowed by the library)
        bool nontrivial = W.awaits >= 1 && len >= 3;
        if (nontrivial) R.nontrivial_cases++;
        R.sig(trace, nontrivial);
        if (W.awaits) R.cls("programs_awaiting_a_suspend_point_outside_coroutine_mode");
        R.cls("awaited_suspend_points", (uint64_t)W.awaits);
        if (R.samples.size() < 2 && len > 5) R.sample(vf::jobj().kv("program", trace).kv("result", "every woken coroutine ran exactly once at the expected moment; the bare coroutine continued once per wake-up").str());
    }
}

} // namespace scn
